"""C03 / C12 (structural part), helper of c03.py and c12.py — declarations, instances and operand rendering of the structural
translators: `StructuralTranslatorL1…L4.translate_decls` + `VStructuralTranslatorL1…L4` / `YosysStructuralTranslatorL1…L4`
(`rtlir_tr_*_decl`, `rtlir_tr_subcomp_decl`, `_rtlir_tr_process_unpacked`, `port_gen` / `wire_*_gen` / `*_conn_gen`) and
`gen_signal_expr` (`StructuralRTLIRSignalExpr.py`).

proof:          lean/PymtlVerif/Props/C03d.lean over Model/SDecl.lean + Model/SDeclPath.lean: decls_cover / decl_dims_in_order (declarations =
                the objects of the table, dimensions of the levels concatenated in order), ifc_decl_matches_subcomp /
                inst_binds_child_ports / inst_formals_nodup / insts_cover_elements (every formal port of the child bound exactly once
                to the wire declared for it: same packed type, dimensions = the slot's, then the port's; one instance per index
                tuple), tokens_in_order (the index stack of gen_signal_expr), gen_signal_expr_path (node classes on a well-typed
                path), render_path / render_queue_empty / operand_denotes (`denoteSV (render p) = denotePy p` over the environment
                of arrays the declarations create) / transposed_operand_differs, names_injective / decl_idents_nodup /
                inst_names_injective; Yosys: ywire_dims_in_order / ywire_dims_wrapped, yconn_pairs_same_element, yrender_path
correspondence: the structural table of EVERY component of a translated hierarchy is read off the real RTLIR metadata exactly as the
                translators read it (`get_ports_packed()` … `get_subcomps_packed()`, `get_dim_sizes()`, `get_all_properties_packed()`),
                the end-points of the component's `connections` are read off the real signal objects (`_my_name`, `_my_indices`,
                slice); the model (driver `pv_sdecl`) returns the declarations, the instance blocks with their port maps and the
                rendered operands; compared with the module parsed from the REAL emitted text (`c03_svparse`): port list (order,
                direction, packed type, unpacked dimensions), wires, sub-component wires, instances (name, module, formal ↦ actual
                with indices), every `assign` (both operands, identifier + select list), and the node classes of the real
                `gen_signal_expr` result; Yosys: flat ports, wire forms (dimensions in order), flat port ↔ wire form assigns.
direct oracle:  as C03 / C12 proper: the generated hierarchies go through `c03_util.run_batch` (simulation of the parsed text by the
                Lean IEEE-1800 semantics vs the PyMTL simulation, single driver, undriven, names resolving against declarations);
                a difference between model and text alone is a disagreement, never a violation.
"""
import itertools, os, random, re, sys

from ..common import leanio
from ..common.leanio import InfraError
from . import c03_svparse as sp
from . import c03_util as U

MODULE = 'PymtlVerif.Props.C03d'
DRIVERS = ['sdecl']
THEOREMS = ['PV.C03d.' + t for t in [
  'decls_cover', 'decl_dims_in_order', 'ifc_decl_matches_subcomp', 'inst_binds_child_ports', 'inst_formals_nodup', 'insts_cover_elements',
  'tokens_in_order', 'gen_signal_expr_path', 'render_path', 'render_queue_empty', 'operand_denotes', 'transposed_operand_differs', 'names_injective',
  'decl_idents_nodup', 'inst_names_injective']]
# the obligations of the Yosys backend (registered by c12.py)
THEOREMS_YOSYS = ['PV.C03d.' + t for t in [
  'tokens_in_order', 'gen_signal_expr_path', 'insts_cover_elements', 'names_injective', 'inst_names_injective',
  'ywire_dims_in_order', 'ywire_dims_wrapped', 'yconn_pairs_same_element', 'yrender_path']]
THEOREM_MODULE = {t: MODULE for t in THEOREMS + THEOREMS_YOSYS}
TRUSTED = [
  'Model/SDecl.lean stands for the structural translators of both backends (declarations, instances, operand rendering) and for '
  'gen_signal_expr; its input is the structural RTLIR table read off the real metadata by c03_sdecl.extract; every item it predicts is '
  'compared with the module parsed from the real emitted text; the constants / free variables / temporaries of a module and the '
  'placeholder / no_synthesis options are outside the model',
]
ASSUMPTIONS = [
  'declaration clause: names are well formed (Names.okName: not empty, no leading `_` or digit, no `__`) and the members of one scope '
  'have different names — what Python attribute names and the C13 checker give; re-evaluated on every table of the run',
]
RULE = ('declaration clause: one PRNG -> hierarchies of depth 1-2 whose classes have scalar / 1-D / non-square 2-D / 3-D lists of ports '
        'and wires (Bits and bitstruct types with list fields), interfaces (single, 1-D, 2-D lists; one nested interface; lists of ports '
        'inside), 1-D / non-square 2-D lists of sub-components whose elements differ in a constructor parameter; every element is '
        'connected on its own (distinct sources, constants, slices, struct fields), so a transposed index changes an output; plus the '
        'stdlib / examples components that translate; non-trivial = at least one list of >= 2 dimensions or a sub-component')

_uid = itertools.count()

# ---------------------------------------------------------------------------------------------
# the real table
# ---------------------------------------------------------------------------------------------
def dtype_sexp(dt):
  from pymtl3.passes.rtlir import RTLIRDataType as rdt
  if isinstance(dt, rdt.Bool): return ('vec', 1)
  if isinstance(dt, rdt.Vector): return ('vec', dt.get_length())
  if isinstance(dt, rdt.Struct):
    return ('struct', dt.get_name()) + tuple((f, dtype_sexp(t)) for f, t in dt.get_all_properties().items())
  if isinstance(dt, rdt.PackedArray):
    t = dtype_sexp(dt.get_sub_dtype())
    for n in reversed(dt.get_dim_sizes()): t = ('arr', n, t)
    return t
  raise InfraError(f'unsupported RTLIR data type {dt}')

def unarr(rtype):
  from pymtl3.passes.rtlir import RTLIRType as rt
  if isinstance(rtype, rt.Array): return list(rtype.get_dim_sizes()), rtype.get_sub_type()
  return [], rtype

def sig_sexp(name, rtype, wire=False):
  dims, t = unarr(rtype)
  return (name, tuple(dims), 'wire' if wire else t.get_direction(), dtype_sexp(t.get_dtype()))

def members_sexp(ifc_rtype):
  from pymtl3.passes.rtlir import RTLIRType as rt
  out = []
  for name, rtype in ifc_rtype.get_all_properties_packed():
    dims, t = unarr(rtype)
    if isinstance(t, rt.Port): out.append(('port', name, tuple(dims), t.get_direction(), dtype_sexp(t.get_dtype())))
    elif isinstance(t, rt.InterfaceView): out.append(('ifc', name, tuple(dims), tuple(members_sexp(t))))
    else: raise InfraError(f'unexpected member {name}: {t} of an interface')
  return out

def ifc_sexp(name, rtype):
  dims, t = unarr(rtype)
  return (name, tuple(dims), tuple(members_sexp(t)))

def all_idx(dims):
  return [list(ix) for ix in itertools.product(*[range(d) for d in dims])]

def module_name(tr, obj):
  st = tr.structural
  return st.component_explicit_module_name.get(obj) or st.component_unique_name[obj]

class Table:
  """what the translators are handed for component `m` (and how the end-points of its connections look as PyMTL objects)"""
  def __init__(s, m, tr):
    from pymtl3.passes.rtlir.structural.StructuralRTLIRGenL1Pass import StructuralRTLIRGenL1Pass as L1
    from pymtl3.dsl.Connectable import Const
    s.m = m
    rtype = m.get_metadata(L1.rtlir_type)
    s.ports = [sig_sexp(n, t) for n, t in rtype.get_ports_packed()]
    s.wires = [sig_sexp(n, t, True) for n, t in rtype.get_wires_packed()]
    s.ifcs = [ifc_sexp(n, t) for n, t in rtype.get_ifc_views_packed()]
    s.subs = []
    for n, t in rtype.get_subcomps_packed():
      dims, c = unarr(t)
      objs = []
      for ix in all_idx(dims):
        o = getattr(m, n)
        for i in ix: o = o[i]
        objs.append(o)
      s.subs.append((n, tuple(dims), tuple(module_name(tr, o) for o in objs),
                     tuple(sig_sexp(pn, pt) for pn, pt in c.get_ports_packed()), tuple(ifc_sexp(i_n, it) for i_n, it in c.get_ifc_views_packed())))
    # the ordered, oriented signal pairs exactly as StructuralRTLIRGenL1Pass._gen_metadata takes them
    conns_set = tr.inst_conns[m]
    pairs = []
    for x in m.get_connect_order():
      if x not in conns_set: x = (x[1], x[0])
      pairs.append(x)
    s.real = list(m.get_metadata(L1.connections))
    if len(pairs) != len(s.real): raise InfraError('connect_order and the connections metadata differ in length')
    s.pairs = pairs
    s.ends = [(s.end(a, ra), s.end(b, rb)) for (a, b), (ra, rb) in zip(pairs, s.real)]

  def end(s, x, real):
    from pymtl3.dsl.Connectable import Const
    from pymtl3.datatypes import Bits
    if isinstance(x, Const):
      c = x._dsl.const
      if isinstance(c, (int, Bits)): return ('const', real.get_rtype().get_dtype().get_length(), int(c))
      return ('other',)
    sl = 'none'
    tmp = x
    if tmp.is_sliced_signal():
      sl = (int(tmp._dsl.slice.start), int(tmp._dsl.slice.stop)); tmp = tmp.get_parent_object()
    frames = []
    from pymtl3.dsl import Component, Interface, Wire, Signal
    first = True
    while tmp is not s.m:
      # what the object IS, independently of the model: component / interface / top-level signal (port or wire) / part of a signal
      kind = ('c' if isinstance(tmp, Component) else 'i' if isinstance(tmp, Interface) else
              ('w' if isinstance(tmp, Wire) else 'p') if isinstance(tmp, Signal) and tmp.is_top_level_signal() else 'f')
      frames.append((kind, tmp._dsl._my_name) + tuple(int(i) for i in (tmp._dsl._my_indices or ())))
      tmp = tmp.get_parent_object()
      if tmp is None: raise InfraError(f'{x!r} is not below {s.m!r}')
    return ('sig', sl) + tuple(frames)

  def line(s, be):
    return leanio.line('sdecl', 'module', be, ('ports',) + tuple(s.ports), ('wires',) + tuple(s.wires), ('ifcs',) + tuple(s.ifcs),
                       ('subs',) + tuple(s.subs), ('conns',) + tuple(s.ends))

def real_sexp(e):
  """the real signal expression as the nested list the driver prints"""
  from pymtl3.passes.rtlir import StructuralRTLIRSignalExpr as sx
  n = type(e).__name__
  if isinstance(e, sx.CurComp): return ['CurComp']
  if isinstance(e, sx.ConstInstance): return ['ConstInstance']
  if isinstance(e, sx._Slice): return [n, real_sexp(e.get_base()), str(e.get_slice()[0]), str(e.get_slice()[1])]
  if isinstance(e, sx._Index): return [n, real_sexp(e.get_base()), str(int(e.get_index()))]
  if isinstance(e, sx._Attribute): return [n, real_sexp(e.get_base()), e.get_attr()]
  raise InfraError(f'unknown signal expression node {n}')

# ---------------------------------------------------------------------------------------------
# the parsed text, canonical
# ---------------------------------------------------------------------------------------------
def lst(t):
  """nested tuples -> nested lists of str (the shape of a parsed driver reply)"""
  if isinstance(t, (tuple, list)): return [lst(x) for x in t]
  return str(t)

def ref_of(e):
  """parsed expression -> [ident, [sel…]] | ['const', w, v] | None"""
  sels = []
  while True:
    k = e[0]
    if k == 'paren': e = e[1]; continue
    if k == 'id': return [e[1], list(reversed(sels))]
    if k == 'lit' and not sels: return ['const', str(e[1]), str(e[2])]
    if k == 'idx' and e[2][0] in ('num', 'lit'): sels.append(['i', str(e[2][-1])]); e = e[1]; continue
    if k == 'mem': sels.append(['f', e[2]]); e = e[1]; continue
    if k == 'rng' and e[2][0] in ('num', 'lit') and e[3][0] in ('num', 'lit'):
      sels.append(['r', str(e[2][-1]), str(e[3][-1])]); e = e[1]; continue
    return None

def text_ref(r):
  if r is None: return '<?>'
  if r[0] == 'const' and len(r) == 3: return f"{r[1]}'d{r[2]}"
  return r[0] + ''.join(f'[{x[1]}]' if x[0] == 'i' else f'.{x[1]}' if x[0] == 'f' else f'[{x[1]}:{x[2]}]' for x in r[1])

class Parsed:
  def __init__(s, pm):
    s.pm = pm
    s.ports = [[d, x, lst(sp.ty_sexp(ty)), [str(k) for k in dims]] for d, x, ty, dims in pm['ports']]
    s.decls = {x: [lst(sp.ty_sexp(ty)), [str(k) for k in dims]] for x, ty, dims in pm['decls']}
    s.insts = [[it[2], it[1], [[p, ref_of(e)] for p, e in it[3]]] for it in pm['items'] if it[0] == 'inst']
    s.assigns = [[ref_of(it[1]), ref_of(it[2])] for it in pm['items'] if it[0] == 'assign']

# ---------------------------------------------------------------------------------------------
# comparison of one module
# ---------------------------------------------------------------------------------------------
def reply_dict(rep):
  r = leanio.parse_sexp(rep)
  return {r[i]: r[i + 1] for i in range(0, len(r), 2)}

STAT = {'modules': 0, 'ports': 0, 'wires': 0, 'subwires': 0, 'instances': 0, 'port_bindings': 0, 'operands': 0, 'operands_2d': 0,
        'sexp_nodes': 0, 'flat_ports': 0, 'wire_forms': 0, 'flat_conns': 0, 'rejected_as_predicted': 0}

def first_diff(a, b):
  for i, (x, y) in enumerate(zip(a, b)):
    if x != y: return i, x, y
  if len(a) != len(b):
    i = min(len(a), len(b))
    return i, (a[i] if i < len(a) else '<nothing>'), (b[i] if i < len(b) else '<nothing>')
  return None

def compare_conns(ck, case, comp, be, tab, d, P, n_before):
  """the operands of the structural connections: node classes vs gen_signal_expr, rendered text vs the parsed assigns"""
  real = tab.real
  ass = P.assigns[n_before:]
  if len(ass) != len(d['conns']):
    ck.disagreement(f'SDecl ({be}): number of connection assigns of a module', case, [comp, len(d['conns'])], [comp, len(ass)])
    return
  for k, (c, (rw, rr), (lhs, rhs)) in enumerate(zip(d['conns'], real, ass)):
    for end, r_real, got, role in ((c[0], rw, rhs, 'writer'), (c[1], rr, lhs, 'reader')):
      what = f'{comp}: connection {k} ({tab.pairs[k][0]!r} -> {tab.pairs[k][1]!r}), {role}'
      if end[0] == 'other': continue
      if end[0] == 'const':
        if got != ['const', end[1], end[2]]:
          ck.disagreement(f'SDecl.render≈rtlir_tr_literal_number ({be}): operand of a connection', case, [what, text_ref(end)], text_ref(got))
        continue
      STAT['operands'] += 1
      toks, sx, ref = end[1], end[2], end[3]
      if sum(1 for t in toks if t[0] == 'i') >= 2: STAT['operands_2d'] += 1
      rs = real_sexp(r_real)
      if sx != rs:
        ck.disagreement('SDecl.genSExp≈gen_signal_expr (node classes and order of the indices of a connection operand)', case,
                        [what, str(sx), 'rendered: ' + (text_ref(ref) if ref != 'none' else '<?>')], [str(rs), 'emitted: ' + text_ref(got)])
        continue
      STAT['sexp_nodes'] += str(rs).count('[')
      if ref == 'none':
        ck.disagreement(f'SDecl.render ({be}): the model cannot render an operand the translator rendered', case, [what, str(sx)], text_ref(got)); continue
      if ref != got:
        ck.disagreement(f'SDecl.render≈rtlir_signal_expr_translation ({be}): operand of a connection (identifier + index list)', case,
                        [what, text_ref(ref)], text_ref(got))
      elif be == 'verilog' and end[4] != []:
        ck.disagreement('SDecl.render: the index queue _rtlir_tr_unpacked_q is not empty after an operand', case, [what, end[4]], 'n/a')
      if end[5] != '1':
        ck.disagreement('hypothesis of C03d.render_path / operand_denotes: the signal expression of an operand is OPath.sexp of the object path '
                        '(component level, interface levels, port / wire, steps into the data type) read off the real objects', case, [what, str(sx)], 'n/a')

def compare_verilog(ck, case, comp, tab, rep, pm):
  d = reply_dict(rep); P = Parsed(pm)
  STAT['modules'] += 1
  if d['ports'] == 'none':
    ck.disagreement('SDecl.vModulePorts: the model predicts TypeError (nested interface) for a module the translator emitted', case, comp, pm['name'])
  else:
    df = first_diff(d['ports'], P.ports)
    STAT['ports'] += len(P.ports)
    if df is not None:
      ck.disagreement('SDecl.vModulePorts≈rtlir_tr_port_decl / rtlir_tr_interface_decl (port list: direction, identifier, packed type, unpacked dimensions in order)',
                      case, [comp, f'port {df[0]}', df[1]], df[2])
  for sec, what in (('wires', 'rtlir_tr_wire_decl (wire declaration'), ('subwires', 'rtlir_tr_subcomp_decl (wire of a sub-component port')):
    for (_, x, ty, dims) in d[sec]:
      STAT[sec] += 1
      if P.decls.get(x) != [ty, dims]:
        ck.disagreement(f'SDecl≈{what}: packed type, unpacked dimensions in order)', case, [comp, x, ty, dims], [x, P.decls.get(x, '<not declared>')])
  known = {x for sec in ('wires', 'subwires') for (_, x, _, _) in d[sec]}
  extra = [x for x in P.decls if x not in known and not x.startswith('__')]
  if extra:
    ck.disagreement('SDecl: the module declares a variable that stands for no object of the table', case, comp, extra[:5])
  minsts = [[i, m, [[f, [w, [['i', k] for k in ix]]] for (f, w, ix) in cs]] for (i, m, cs) in d['insts']]
  STAT['instances'] += len(minsts); STAT['port_bindings'] += sum(len(i[2]) for i in minsts)
  df = first_diff(minsts, P.insts)
  if df is not None:
    a, b = df[1], df[2]
    if isinstance(a, list) and isinstance(b, list) and a[:2] == b[:2]:
      dd = first_diff(a[2], b[2])
      a, b = [a[0], '.%s( %s )' % (dd[1][0], text_ref(dd[1][1])) if isinstance(dd[1], list) else dd[1]], [b[0], '.%s( %s )' % (dd[2][0], text_ref(dd[2][1])) if isinstance(dd[2], list) else dd[2]]
    ck.disagreement('SDecl.vSubInsts≈rtlir_tr_subcomp_decl (instance blocks: name, module, port map `.port( wire[i][j] )`)', case, [comp, a], b)
  compare_conns(ck, case, comp, 'verilog', tab, d, P, 0)

def compare_yosys(ck, case, comp, tab, rep, pm):
  d = reply_dict(rep); P = Parsed(pm)
  STAT['modules'] += 1
  mp = sorted([dr, x, str(int(m) + 1)] for (dr, x, m) in d['ports'])
  pp = sorted([dr, x, str(U.ty_width(ty))] for dr, x, ty, dims in pm['ports'])
  STAT['flat_ports'] += len(pp)
  if mp != pp or any(dims for _, _, _, dims in pm['ports']):
    df = first_diff(mp, pp)
    ck.disagreement('SDecl.yModule≈port_gen / ifc_port_gen (flat ports: direction, identifier, width)', case, [comp, df[1] if df else 'n/a'], df[2] if df else 'unpacked port')
  pdecl = {x: [str(U.ty_width(ty)), [str(k) for k in dims]] for x, ty, dims in pm['decls']}
  for (x, m, dims) in d['wires']:
    STAT['wire_forms'] += 1
    if pdecl.get(x) != [str(int(m) + 1), dims]:
      ck.disagreement('SDecl.yWires≈wire_dtype_gen / wire_struct_gen / wire_packed_gen (wire form: width, unpacked dimensions in order)', case,
                      [comp, x, int(m) + 1, dims], [x, pdecl.get(x, '<not declared>')])
  for (_, x, m) in d['subports']:
    if pdecl.get(x) != [str(int(m) + 1), []]:
      ck.disagreement('SDecl.yInsts≈_subcomp_port_gen (wire of a flat port of a sub-component instance)', case, [comp, x, int(m) + 1], [x, pdecl.get(x, '<not declared>')])
  known = {w[0] for w in d['wires']} | {p[1] for p in d['subports']}
  extra = [x for x in pdecl if x not in known and not x.startswith('__')]
  if extra:
    ck.disagreement('SDecl (yosys): the module declares a variable that stands for no object of the table', case, comp, extra[:5])
  minsts = [[i, m, [[f, [w, []]] for (f, w, ix) in cs]] for (i, m, cs) in d['insts']]
  STAT['instances'] += len(minsts); STAT['port_bindings'] += sum(len(i[2]) for i in minsts)
  df = first_diff(minsts, P.insts)
  if df is not None:
    ck.disagreement('SDecl.yInsts≈_subcomp_port_gen (instance blocks: name, module, port map)', case, [comp, str(df[1])[:300]], str(df[2])[:300])
  # flat port <-> wire form: (lhs, rhs) of every assign; sub-component ports as seen from the child
  def asg(c, sub):
    dr, pid, wid, idx = c
    flat, form = [pid, []], [wid, idx]
    inward = (dr == 'input') != sub          # the wire form is driven from the flat port
    return [form, flat] if inward else [flat, form]
  want = sorted(map(str, [asg(c, True) for c in d['sconns']] + [asg(c, False) for c in d['pconns']]))
  n = len(want)
  STAT['flat_conns'] += n
  got = sorted(map(str, P.assigns[:len(d['sconns'])] + P.assigns[len(d['sconns']):][:len(d['pconns'])]))
  if len(P.assigns) != n + len(d['conns']) or want != got:
    a = [x for x in want if x not in got]; b = [x for x in got if x not in want]
    ck.disagreement('SDecl.yConns≈_port_conn_gen / struct_conn_gen / _packed_conn_gen / ifc_conn_gen / _subcomp_conn_gen (flat port <-> element of the wire form: `assign wid[i][j] = pid__i__j`)',
                    case, [comp, 'model only: ' + '; '.join(a[:3]), len(want)], ['text only: ' + '; '.join(b[:3]), len(P.assigns) - len(d['conns'])])
    if len(P.assigns) < len(d['conns']): return
    n = len(P.assigns) - len(d['conns'])
  compare_conns(ck, case, comp, 'yosys', tab, d, P, n)

# ---------------------------------------------------------------------------------------------
# a translated hierarchy
# ---------------------------------------------------------------------------------------------
def check_translated(ck, be, top, parsed, case, lines, meta):
  """queue the model requests for every component of a translated hierarchy"""
  P = U.backend_pass(be)
  tr = top.get_metadata(P.translator)
  seen = set()
  for comp in sorted(top.get_all_components(), key=repr):
    name = module_name(tr, comp)
    if name in seen: continue
    seen.add(name)
    pm = next((m for m in parsed.modules if m['name'] == name), None)
    if pm is None:
      ck.disagreement(f'SDecl ({be}): no module in the emitted text for a component', case, repr(comp), name); continue
    tab = Table(comp, tr)
    lines.append(tab.line(be)); meta.append((case, be, repr(comp), tab, pm))

def flush(ck, lines, meta):
  if not lines: return
  for rep, (case, be, comp, tab, pm) in zip(ck.drv('sdecl').batch(lines), meta):
    (compare_verilog if be == 'verilog' else compare_yosys)(ck, case, comp, tab, rep, pm)
  del lines[:], meta[:]

# ---------------------------------------------------------------------------------------------
# generator: hierarchies whose every list element is wired on its own
# ---------------------------------------------------------------------------------------------
SHAPES = [(), (), (2,), (3,), (2, 3), (3, 2), (2, 3), (3, 2), (2, 2), (2, 1, 3), (2, 2, 3)]

def idx_text(ix): return ''.join(f'[{i}]' for i in ix)

def list_ctor(elem, dims):
  t = elem
  for k, d in reversed(list(enumerate(dims))): t = f'[ {t} for _i{k} in range({d}) ]'
  return t

def elems(base, dims): return [base + idx_text(ix) for ix in itertools.product(*[range(d) for d in dims])]

def gen_design(rng, be, tag):
  """-> dict(src, label, features): class Top with 1-2 child classes; all data paths are Bits8 so that any element can feed any other"""
  yos = be == 'yosys'
  feats = set()
  L = ['from pymtl3 import *', '']
  shape = lambda pool=SHAPES: rng.choice(pool)
  nd = lambda d: 'x'.join(map(str, d)) if d else 'scalar'
  # ---- a bitstruct with a list field (top-level inputs only: a struct in output direction is known finding F10 of the Yosys backend)
  fl = rng.choice([2, 3]); fl2 = rng.choice([None, 2])
  L += ['@bitstruct', f'class DPt{tag}:', f'  ch: [ Bits8 ] * {fl}', '  x: Bits8'] + ([f'  g: [ [ Bits8 ] * {fl} ] * {fl2}'] if fl2 else []) + ['']
  # ---- interfaces: Inner (scalar ports) nested once inside Outer; Outer has port lists
  has_ifc = rng.random() < 0.75
  ifc_in, ifc_out = shape([(), (2,), (3,), (2, 3)]), shape([(), (), (2,), (3, 2)])
  nested = has_ifc and rng.random() < 0.6
  if has_ifc:
    if nested:
      L += [f'class DIn{tag}( Interface ):', '  def construct( s ):', '    s.sd = InPort( Bits8 )', '    s.sq = OutPort( Bits8 )', '']
    L += [f'class DIf{tag}( Interface ):', '  def construct( s ):', f"    s.d = {list_ctor('InPort( Bits8 )', ifc_in)}", f"    s.q = {list_ctor('OutPort( Bits8 )', ifc_out)}"]
    if nested: L += [f'    s.sub = DIn{tag}()']
    L += ['']
    feats.add('ifc-ports-' + nd(ifc_in) + '/' + nd(ifc_out)); 
    if nested: feats.add('ifc-nested')
  # ---- child class
  A, O = shape(), shape()
  cifc = shape([(), (), (2,), (2, 3)]) if has_ifc else None
  feats.add('child-in-' + nd(A)); feats.add('child-out-' + nd(O))
  C = [f'class DLf{tag}( Component ):', '  def construct( s, k ):', f"    s.a = {list_ctor('InPort( Bits8 )', A)}", f"    s.o = {list_ctor('OutPort( Bits8 )', O)}"]
  ain = elems('s.a', A)
  if cifc is not None:
    C.append(f"    s.ifc = {list_ctor(f'DIf{tag}()', cifc)}"); feats.add('child-ifc-' + nd(cifc))
  body = []
  for n, o in enumerate(elems('s.o', O)): body.append(f'      {o} @= {ain[(n * 5 + 1) % len(ain)]} + {(3 * n) % 11 + 1} * k')
  if cifc is not None:
    for m, pre in enumerate(elems('s.ifc', cifc)):
      din = elems(pre + '.d', ifc_in)
      for n, q in enumerate(elems(pre + '.q', ifc_out)): body.append(f'      {q} @= {din[(n * 3 + m) % len(din)]} + {(7 * n + 5 * m) % 13 + 2} * k')
      if nested: body.append(f'      {pre}.sub.sq @= {pre}.sub.sd ^ ( {m + 1} * k )')
  C += ['    @update', '    def up():'] + body + ['']
  L += C
  # ---- top
  X = shape([(2, 3), (3, 2), (2, 2, 3), (3,), (2, 3)]); W = shape([(), (2,), (2, 3), (3, 2)]); D = shape([(), (2,), (3,), (2, 3), (3, 2), (2, 3)])
  Y = shape([(2,), (2, 3), (3, 2), (3,)])
  S = shape([(), (2,), (3,)]) if rng.random() < (0.8 if yos else 0.6) else None
  tifc = shape([(), (), (2,), (2, 3), (3, 2)]) if has_ifc else None
  feats.add('top-in-' + nd(X)); feats.add('top-out-' + nd(Y)); feats.add('wires-' + nd(W)); feats.add('subs-' + nd(D))
  T = ['class Top( Component ):', '  def construct( s ):', f"    s.x = {list_ctor('InPort( Bits8 )', X)}", f"    s.y = {list_ctor('OutPort( Bits8 )', Y)}",
       f"    s.w = {list_ctor('Wire( Bits8 )', W)}"]
  nk = itertools.count(1)
  T.append(f"    s.c = {list_ctor(f'DLf{tag}( {{K}} )', D)}".replace('{K}', ' + '.join([f'{3 ** k} * _i{k}' for k in range(len(D))] + ['1'])))
  srcs = elems('s.x', X)
  if S is not None:
    T.append(f"    s.sp = {list_ctor(f'InPort( DPt{tag} )', S)}"); feats.add('struct-in-' + nd(S))
    for e in elems('s.sp', S):
      srcs += [f'{e}.x'] + [f'{e}.ch[{j}]' for j in range(fl)] + ([f'{e}.g[{a}][{b}]' for a in range(fl2) for b in range(fl)] if fl2 else [])
  if tifc is not None:
    T.append(f"    s.ifc = {list_ctor(f'DIf{tag}()', tifc)}"); feats.add('top-ifc-' + nd(tifc))
    for pre in elems('s.ifc', tifc):
      srcs += elems(pre + '.d', ifc_in) + ([pre + '.sub.sd'] if nested else [])
  rng.shuffle(srcs)
  pick = itertools.cycle(srcs)
  conns = []
  def drive(sink, src=None):
    src = src or next(pick)
    r = rng.random()
    conns.append(f'    {sink} //= {src}' if r < 0.5 else f'    {src} //= {sink}' if r < 0.7 else f'    connect( {src}, {sink} )' if r < 0.85 else f'    connect( {sink}, {src} )')
  wires = elems('s.w', W)
  for w in wires: drive(w)
  mids = list(wires)
  for c in elems('s.c', D):
    for a in elems(c + '.a', A): drive(a, rng.choice(wires) if rng.random() < 0.25 else None)
    mids += elems(c + '.o', O)
    if cifc is not None:
      for pre in elems(c + '.ifc', cifc):
        for dd in elems(pre + '.d', ifc_in): drive(dd)
        if nested: drive(pre + '.sub.sd')
        mids += elems(pre + '.q', ifc_out) + ([pre + '.sub.sq'] if nested else [])
  rng.shuffle(mids)
  pickm = itertools.cycle(mids)
  outs = elems('s.y', Y)
  if tifc is not None:
    for pre in elems('s.ifc', tifc): outs += elems(pre + '.q', ifc_out) + ([pre + '.sub.sq'] if nested else [])
  consts = 0
  for o in outs:
    r = rng.random()
    if r < 0.08: conns.append(f'    {o} //= {rng.randrange(1, 250)}'); consts += 1
    elif r < 0.2 and not yos:                            # two slices of one output from slices of two sources
      a, b = next(pickm), next(pickm)
      conns += [f'    {o}[0:4] //= {a}[4:8]', f'    {o}[4:8] //= {b}[0:4]']; feats.add('slices')
    else: drive(o, next(pickm))
  rng.shuffle(conns)
  T += conns + ['']
  src = '\n'.join(L + T)
  return {'src': src, 'label': f'sdecl:{be}', 'features': sorted(feats)}

# ---------------------------------------------------------------------------------------------
# run
# ---------------------------------------------------------------------------------------------
def run_generated(ck, be, n, ncycles):
  stats = {}
  designs = [gen_design(random.Random(ck.rng.getrandbits(64)), be, f'{be[0]}{next(_uid)}') for _ in range(n)]
  ck.extra_cov.setdefault('sdecl_sample_source_' + be, designs[0]['src'])
  lines, meta = [], []
  done = 0
  for i in range(0, len(designs), 12):
    jobs = U.run_batch(ck, be, designs[i:i + 12], stats, ncycles, 2, tie=False, keep=True)
    for j in jobs:
      if j.stage == 'rejected' and 'TypeError' in str(j.info): STAT['rejected_as_predicted'] += 1
      if j.parsed is None or j.top2 is None: continue
      case = dict(j.case, sdecl=True)
      try: check_translated(ck, be, j.top2, j.parsed, case, lines, meta)
      except InfraError as e: raise
      done += 1
    flush(ck, lines, meta)
    for j in jobs:
      mn = getattr(j, 'modname', None)
      if mn:
        sys.modules.pop(mn, None)
        try: os.remove(os.path.join(ck.workdir, mn + '.py'))
        except OSError: pass
      j.top2 = j.parsed = j.ptop = j.mapped = j.pytrace = j.ports = None
  return len(designs), done, stats

def run_library(ck, be):
  """the stdlib / examples components of c01_lib that translate: model vs parsed text only (their behaviour is C17 / C19 / C20's business)"""
  from . import c01_lib
  n_ok = n_rej = 0
  lines, meta = [], []
  for name, factory, _ in c01_lib.designs(ck.tier):
    try:
      top = factory(); top.elaborate()
      txt = U.translate(top, be, ck.workdir)
    except Exception as e:
      n_rej += 1; continue
    try: parsed = sp.parse(txt)
    except sp.SVSyntaxError: n_rej += 1; continue
    check_translated(ck, be, top, parsed, {'sdecl': True, 'library': name, 'backend': be}, lines, meta)
    n_ok += 1
    if len(lines) > 40: flush(ck, lines, meta)
  flush(ck, lines, meta)
  return n_ok, n_rej

def run(ck, be):
  quick = ck.tier == 'quick'
  n = ((20 if be == 'verilog' else 12) if quick else 250)      # (the Lean simulation of the flattened Yosys text is the expensive part)
  nb0, nv0 = len(ck.breaks), len(ck.violations)
  import time; t0 = time.time()
  gen, done, stats = run_generated(ck, be, n, 4 if quick else 6)
  lib_ok, lib_rej = run_library(ck, be)
  # which item of the model differs from the emitted text (named here, because the evidence keeps only the number of disagreements
  # once a failing input exists)
  diffs = {}
  for b in ck.breaks[nb0:]:
    e = diffs.setdefault(b['correspondence'], {'n': 0, 'first': {'model': str(b['model'])[:400], 'text': str(b['impl'])[:400],
                                                                 'design': (b['case'] or {}).get('library') or U.hash_text((b['case'] or {}).get('src', ''))}})
    e['n'] += 1
  ck.extra_cov['sdecl_' + be] = {'generated': gen, 'translated_and_compared': done, 'library_components_compared': lib_ok,
                                 'library_components_not_translated': lib_rej, 'pipeline': {k: v for k, v in stats.items() if k != 'not-compared'},
                                 'not_compared': stats.get('not-compared', [])[:5], 'items': dict(STAT), 'wall_s': round(time.time() - t0, 1), 'model_vs_text_differences': diffs,
                                 'violations_on_generated_hierarchies': sorted({v.kind for v in ck.violations[nv0:]})}
  if done < gen * 0.8:
    raise InfraError(f'declaration clause: only {done} of {gen} generated hierarchies were translated and parsed: {stats.get("not-compared", [])[:3]}')

def replay(ck, data):
  case = data.get('case') or data
  be = case.get('backend', 'verilog')
  lines, meta = [], []
  if case.get('library'):
    from . import c01_lib
    f = next(f for (n, f, _) in c01_lib.designs('thorough') if n == case['library'])
    top = f(); top.elaborate(); txt = U.translate(top, be, ck.workdir)
    check_translated(ck, be, top, sp.parse(txt), case, lines, meta)
  else:
    d = {'src': case['src'], 'label': case.get('label', 'replay'), 'features': []}
    if case.get('cycles') is not None: d['cycles'] = case['cycles']
    jobs = U.run_batch(ck, be, [d], {}, 4, 2, tie=False, keep=True)
    j = jobs[0]
    print('design:\n' + d['src']); print('stage:', j.stage, j.info if j.stage != 'ok' else '')
    if j.parsed is not None: check_translated(ck, be, j.top2, j.parsed, case, lines, meta)
  for l, rep in zip(lines, ck.drv('sdecl').batch(lines)): print('model :', rep[:1500])
  flush(ck, lines, meta)
  for v in ck.violations: print('VIOLATION', v.kind, v.signature, str(v.detail)[:600])
  for b in ck.breaks: print('DISAGREEMENT', b['correspondence'], b['model'], b['impl'])
  return 1 if (ck.violations or ck.breaks) else 0
