"""C01 / C07, scheduler stream — the packing and ordering ALGORITHMS of pymtl3/passes/mamba against Model/Mamba.lean.

proof:          lean/PymtlVerif/Props/C01m.lean (namespace PV.C01m; lemmas in Proofs/Mamba.lean): schedule_ff's packing,
                compile_scc's packing, the topological sort + meta-block packing of Mamba2020Pass.schedule_intra_cycle and
                HeuristicTopoPass.schedule_intra_cycle neither lose, duplicate nor illegally reorder blocks, for EVERY input.
correspondence: generated components (module files under ck.workdir) whose update / update_ff blocks carry a chosen number of
                if / ifexp / elif statements (branchiness 0,1,5,19,20,25; runs of 5,6,7,12,13 branchy blocks; zero-branch and
                loop-only blocks mixed in; independent, chained, layered and random DAG shapes; rings of 10-16 blocks = SCCs
                that compile_scc cuts into meta blocks, smaller rings that it inlines) run through the REAL passes
                (GenDAGPass, WrapGreenletPass, Mamba2020Pass(print_line_trace=False) exactly as the Mamba2020 pass group does;
                HeuTopoUnrollSim). Read from the pass: `branchiness`, `only_loop_at_top`, the return value of kosaraju_scc
                (wrapped in this process only), top._sched.schedule_ff / update_schedule (meta blocks keep their members in
                fn.__globals__['blk0'..], SCC wrappers list theirs in their source). The segmentation into meta blocks is
                compared EXACTLY (same groups, same order) with the model (driver pv_mamba): `packff` on the blocks in the
                iteration order of top.get_all_update_ff(); `sched` on the condensation graph kosaraju_scc returned (edges
                in the iteration order of the G_new sets); `packscc` on the order each SCC wrapper shows (the BFS order is
                taken from the wrapper; that it covers the SCC is the direct oracle's business); `heutopo` on the blocks,
                constraint edges, CountBranchesLoops branchiness and the ranks of id(blk); `insert` = insert_sortedlist
                alone, compiled from the source text of Mamba2020Pass.py, on sorted queues with equal keys as well.
                Several instances of ONE component class (block names are shared between instances, analysis results are
                cached per class): (a) hub designs — a hub block feeding 3-5 instances of 1-2 lane classes (one `up_decode`
                block each, a K-way if/elif decode, K = 0/5/19/20/21/25 = its branchiness) and reading them back through
                nets: a false loop of 3N+1 >= 10 blocks that compile_scc cuts into meta blocks, blocks of >= 20 branches
                landing alone; run under Mamba2020 and DefaultPassGroup (parts 'all' and 'scc'); (b) part 'ff': 2-4
                instances of one child class `construct(s, en_a, en_b)` whose update_ff block writes ra / rb / rc under
                `if en_a:` / `if en_b:` / `else:` (closure constants; one variant through an @s.func helper, one nested
                under a signal test), all constant combinations and construction orders, dead-branch instance first in 60%.
direct oracle:  hub designs, on the real simulation: after sim_eval_combinational the state is a fixed point (re-running any
                comb block changes nothing) and equals the acyclic reference f_K(...f_K(in)); multi-instance designs, on the
                real simulation under Default / Mamba2020 / UnrollSim / HeuTopoUnrollSim: every register follows
                state' = F(state, in) each cycle (Python reference), every live `<<=` target has needs_double_buffer;
                independent of the model: every update_ff block exactly once in the flattened schedule_ff; every comb block of
                final_upblks exactly once in the flattened update_schedule (inside an SCC wrapper: at least once, a repeat only
                for an entry block with >= 2 constraint edges from outside its SCC, which the BFS of compile_scc enqueues once
                per edge); for every constraint (u, v) between different SCCs (SCCs recomputed here by reachability) u comes
                before v. A difference = a block that never runs / runs too early (C01, C07).
"""
import importlib.util, inspect, os, re, sys

from ..common import leanio, rtlgen
from ..common.leanio import InfraError

DRIVERS = ['mamba']
MODULE = 'PymtlVerif.Props.C01m'
THEOREMS = ['PV.C01m.' + t for t in [
  'sortBr_perm', 'sortBr_sorted', 'packFF_flatten', 'packFF_bounds', 'packSCC_flatten', 'packSCC_bounds',
  'insertSorted_perm', 'insertSorted_sorted', 'mamba_fuel', 'mamba_topo', 'mamba_complete', 'mamba_queue_sorted', 'mamba_segmentation',
  'mamba_bounds', 'heu_fuel', 'heu_topo', 'heu_complete', 'heu_pops_min', 'sortBr_stable', 'packSCC_small']]
# the part that concerns update_ff blocks only (C07)
THEOREMS_FF = ['PV.C01m.' + t for t in ['sortBr_perm', 'sortBr_sorted', 'sortBr_stable', 'packFF_flatten', 'packFF_bounds']]
# the part that concerns the packing inside an SCC wrapper and the order of the SCCs (C11)
THEOREMS_SCC = ['PV.C01m.' + t for t in ['packSCC_flatten', 'packSCC_bounds', 'packSCC_small', 'mamba_fuel', 'mamba_topo', 'mamba_complete',
                                         'mamba_segmentation']]
THEOREM_MODULE = {t: MODULE for t in THEOREMS}
TRUSTED = [
  'Model/Mamba.lean stands for Mamba2020Pass.schedule_ff / compile_scc packing / schedule_intra_cycle (insert_sortedlist, pop(0)/pop(), '
  'expand_node, three flush sites) and HeuristicTopoPass.schedule_intra_cycle; outside the model: CountBranchesLoops (branchiness is read '
  'from the pass), kosaraju_scc (its result is the model\'s input; Model/Scc), the BFS order inside compile_scc (the model packs the order it '
  'is given), compile_meta_block / the generated wrapper source (read back by this check), queue.PriorityQueue (= pop the minimum), '
  'Python\'s sorted() being stable',
]
RULE = ('scheduler stream: generated components with 0-40 comb blocks (branch counts drawn from pools aimed at every flush site, shapes '
        'independent / chain / layered / random DAG, optional net aliases and loop-only blocks), 0-2 rings of 2-16 blocks, 0-16 update_ff blocks; '
        'a case = (design, pass, schedule part); non-trivial = a flush happens (>= 2 meta blocks) or the order is constrained by >= 1 edge; '
        'plus random sorted queues (0-8 entries, keys from a 4 x 6 grid so that equal keys occur) for insert_sortedlist; '
        'several instances of one class: hub + 3-5 lanes of 1-2 lane classes (decode width 0/5/19/20/21/25), simulated on 6 inputs under 2 pass '
        'groups; 2-4 instances of a child class with closure-constant guarded <<= branches, 8 cycles under 4 pass groups')

# ---------------------------------------------------------------------------------------------------------------------
# generated designs
# ---------------------------------------------------------------------------------------------------------------------
class MDesign:
  """comb block i writes wire w<i>; ff block j writes register r<j>; `reads` are comb indices (through the wire or an alias net)"""
  def __init__(self, uid):
    self.uid = uid
    self.combs = []     # {'reads': [(i, via_alias)], 'br': k, 'loop': bool, 'forms': seed}
    self.ffs = []       # {'br': k, 'loop': bool, 'reset': bool}
    self.outs = []      # comb indices exported through an OutPort net
    self.tag = ''

  def cls_name(self): return f'MG{os.getpid()}_{self.uid}'

  def branch_lines(self, rng, k, tgt, op, base, ind, idx=None):
    """statements containing exactly k counted branches (If / IfExp whose test is not `s.reset`)"""
    out, t = [], 0
    sel = lambda: f's.sel[{idx}]' if idx is not None else f's.sel[{rng.randrange(8)}]'
    while t < k:
      left = k - t
      form = rng.choice(['if', 'if', 'ifexp', 'elif', 'nested', 'ifelse']) if left >= 2 else rng.choice(['if', 'ifexp', 'ifelse'])
      if form == 'if':
        out += [f'{ind}if {sel()}: {tgt} {op} {base} + 1']; t += 1
      elif form == 'ifexp':
        out += [f'{ind}{tgt} {op} ({base} + 2) if {sel()} else {base}']; t += 1
      elif form == 'ifelse':
        out += [f'{ind}if {sel()}:', f'{ind}  {tgt} {op} {base} + 3', f'{ind}else:', f'{ind}  {tgt} {op} {base}']; t += 1
      elif form == 'elif':
        out += [f'{ind}if {sel()}:', f'{ind}  {tgt} {op} {base} + 4', f'{ind}elif {sel()}:', f'{ind}  {tgt} {op} {base} + 5']; t += 2
      else:
        out += [f'{ind}if {sel()}:', f'{ind}  if {sel()}: {tgt} {op} {base} + 6']; t += 2
    return out

  def source(self):
    import random
    L = ['from pymtl3 import *', '', f'class {self.cls_name()}( Component ):', '  def construct( s ):',
         '    s.in_ = InPort( Bits8 )', '    s.sel = InPort( Bits8 )']
    aliases = sorted({i for c in self.combs for (i, via) in c['reads'] if via})
    for i in range(len(self.combs)): L.append(f'    s.w{i} = Wire( Bits8 )')
    for j in range(len(self.ffs)): L.append(f'    s.r{j} = Wire( Bits8 )')
    for i in aliases: L += [f'    s.v{i} = Wire( Bits8 )', f'    s.v{i} //= s.w{i}']
    for i in self.outs: L += [f'    s.o{i} = OutPort( Bits8 )', f'    s.o{i} //= s.w{i}']
    for i, c in enumerate(self.combs):
      rng = random.Random(c['forms'])
      srcs = [(f's.v{r}' if via else f's.w{r}') for (r, via) in c['reads']] or ['s.in_']
      L += ['    @update', f'    def c{i}():']
      if c['loop']:
        base = ' | '.join(f'{x}[i]' for x in srcs)
        L += ['      for i in range(2):', f'        s.w{i}[i] @= {base}']
        L += self.branch_lines(rng, c['br'], f's.w{i}[i]', '@=', f'({base})', '        ', idx='i')
      else:
        base = ' | '.join(srcs)
        L += [f'      s.w{i} @= {base}']
        L += self.branch_lines(rng, c['br'], f's.w{i}', '@=', f'({base})', '      ')
    for j, f in enumerate(self.ffs):
      rng = random.Random(f['forms'])
      src = f"s.w{f['src']}" if f.get('src') is not None else 's.in_'
      L += ['    @update_ff', f'    def f{j}():']
      if f['loop']:
        L += ['      for i in range(2):', f'        s.r{j} <<= {src}']
        L += self.branch_lines(rng, f['br'], f's.r{j}', '<<=', src, '        ', idx='i')
      else:
        L += [f'      s.r{j} <<= {src}']
        if f.get('reset'): L += [f'      if s.reset: s.r{j} <<= 0']
        L += self.branch_lines(rng, f['br'], f's.r{j}', '<<=', src, '      ')
    return '\n'.join(L) + '\n'

BR_POOLS = [[0], [1], [0, 1], [0, 0, 1, 2], [5], [0, 5], [19, 1], [20, 0, 1], [25, 0], [0, 1, 5, 19, 20, 25], [3, 4, 6], [0, 0, 0, 7, 9], [1, 2, 3]]

def gen_design(rng, uid, kind=None):
  d = MDesign(uid)
  kind = kind or rng.choice(['ff', 'ff', 'dag', 'dag', 'dag', 'ring', 'ring', 'mix'])
  d.tag = kind
  def comb(reads, br, loop=False):
    d.combs.append({'reads': reads, 'br': br, 'loop': loop, 'forms': rng.getrandbits(30)}); return len(d.combs) - 1
  def ff(br, loop=False, reset=False, src=None):
    d.ffs.append({'br': br, 'loop': loop, 'reset': reset, 'src': src, 'forms': rng.getrandbits(30)})
  def dag(n):
    pool = rng.choice(BR_POOLS)
    shape = rng.choice(['indep', 'chain', 'layer', 'rand', 'rand', 'fan'])
    first = len(d.combs)
    for k in range(n):
      prev = list(range(first, first + k))
      if shape == 'indep' or not prev: reads = []
      elif shape == 'chain': reads = [prev[-1]]
      elif shape == 'fan': reads = [first] if rng.random() < 0.8 else [rng.choice(prev)]
      elif shape == 'layer': reads = rng.sample(prev[-6:], min(len(prev[-6:]), rng.choice([1, 2])))
      else: reads = rng.sample(prev, min(len(prev), rng.choice([0, 1, 1, 2, 3])))
      comb([(r, rng.random() < 0.15) for r in reads], rng.choice(pool), loop=(rng.random() < 0.12))
    return first
  def ring(m, pred=None):
    pool = rng.choice(BR_POOLS)
    first = len(d.combs)
    for k in range(m):
      reads = [(first + k - 1, False)] if k else [(first + m - 1, False)] + ([(pred, False)] if pred is not None else [])
      if k and rng.random() < 0.15:                                                        # chords inside the ring
        c = first + rng.randrange(m)
        if c != first + k and (c, False) not in reads: reads.append((c, False))
      comb(reads, rng.choice(pool), loop=(rng.random() < 0.12))
    return first
  if kind in ('ff', 'mix'):
    directed = [[0] * 3, [1] * 5, [1] * 6, [1] * 7, [1] * 12, [1] * 13, [2] * 7 + [0] * 2, [5] * 4, [5] * 5, [19, 1], [19], [20], [25],
                [20, 20], [0, 0, 25, 25], [1, 19, 19], [3] * 7, [0, 0, 1, 1, 1, 1, 1, 1, 1], [5, 5, 5, 4, 1, 1], [1, 1, 1, 1, 1, 15, 20]]
    if rng.random() < 0.6: brs = list(rng.choice(directed))
    else:
      pool = rng.choice(BR_POOLS); brs = [rng.choice(pool) for _ in range(rng.randint(1, 16))]
    for b in brs: ff(b, loop=(rng.random() < 0.1), reset=(rng.random() < 0.2))
    if rng.random() < 0.3: ff(rng.choice([1, 7, 25]), loop=True)          # loop-only with branches inside: effective 0
  if kind in ('dag', 'mix'):
    dag(rng.choice([1, 2, 5, 6, 7, 8, 12, 13, 20, 30]) if kind == 'dag' else rng.randint(2, 10))
  if kind == 'ring':
    pred = None
    if rng.random() < 0.7:
      dag(rng.randint(1, 4)); pred = len(d.combs) - 1
    a = ring(rng.choice([2, 3, 9, 10, 10, 11, 12, 13, 14, 15, 16]), pred)
    if rng.random() < 0.4: ring(rng.choice([2, 10, 12]), a + 1)           # a second SCC fed by the first
    tail = len(d.combs)
    for k in range(rng.randint(0, 4)):
      comb([(rng.randrange(tail), False)], rng.choice([0, 1, 5]))
  if kind != 'ff' and d.combs:
    d.outs = sorted(rng.sample(range(len(d.combs)), min(len(d.combs), rng.randint(0, 3))))
    for f in d.ffs:
      if rng.random() < 0.3: f['src'] = rng.randrange(len(d.combs))
  if not d.ffs and rng.random() < 0.3: ff(rng.choice([0, 1]))
  return d

_loaded = {}
# ---------------------------------------------------------------------------------------------------------------------
# several instances of one component class
# ---------------------------------------------------------------------------------------------------------------------
def lane_f(K, x): return ((x + 1) & 0xff) if (K == 0 or x < K) else x

def hub_source(rng, uid):
  """a hub block feeding N instances of 1-2 lane classes (one update block `up_decode` each: a K-way if/elif decode, K = the
  block's branchiness) and reading them back through nets: hub + 2N net blocks + N decode blocks form a FALSE loop
  (in_ -> lane0 -> lane1 -> ... -> out); returns (source, class name, spec)"""
  N = rng.choice([3, 3, 4, 4, 5])
  Ks = [rng.choice([0, 5, 19, 20, 21, 25])]
  if rng.random() < 0.4: Ks.append(rng.choice([0, 5, 20, 25]))
  if rng.random() < 0.5: Ks[0] = rng.choice([20, 21, 25])          # a block of >= 20 branches is a meta block of its own
  lanes = [rng.randrange(len(Ks)) for _ in range(N)]
  if len(Ks) == 2 and rng.random() < 0.5: lanes = sorted(lanes)
  pre = rng.random() < 0.5
  top = f'MH{os.getpid()}_{uid}'
  L = ['from pymtl3 import *', '']
  for c, K in enumerate(Ks):
    L += [f'class Lane{os.getpid()}_{uid}_{c}( Component ):', '  def construct( s ):', '    s.in_ = InPort( 8 )', '    s.out = OutPort( 8 )',
          '    @update', '    def up_decode():']
    if K == 0: L += ['      s.out @= s.in_ + 1']
    else:
      for k in range(K): L += [f"      {'if' if k == 0 else 'elif'} s.in_ == {k}: s.out @= {k + 1}"]
      L += ['      else: s.out @= s.in_']
    L += ['']
  L += [f'class {top}( Component ):', '  def construct( s ):', '    s.in_ = InPort( 8 )', '    s.out = OutPort( 8 )',
        f'    s.to_lane = [ Wire( 8 ) for _ in range({N}) ]', f'    s.from_lane = [ Wire( 8 ) for _ in range({N}) ]',
        '    s.lanes = [ ' + ', '.join(f'Lane{os.getpid()}_{uid}_{c}()' for c in lanes) + ' ]',
        f'    for i in range({N}):', '      s.lanes[i].in_ //= s.to_lane[i]', '      s.lanes[i].out //= s.from_lane[i]']
  if pre: L += ['    s.pre = Wire( 8 )', '    @update', '    def up_pre():', '      s.pre @= s.in_']
  L += ['    @update', '    def up_hub():', f"      s.to_lane[0] @= {'s.pre' if pre else 's.in_'}",
        f'      for i in range(1, {N}):', '        s.to_lane[i] @= s.from_lane[i-1]', f'      s.out @= s.from_lane[{N - 1}]']
  return '\n'.join(L) + '\n', top, {'N': N, 'K': [Ks[c] for c in lanes]}

def check_hub_sim(ck, src, clsname, spec):
  """direct oracle on the REAL simulation of a hub design: the state returned by sim_eval_combinational is a fixed point
  (re-running any comb block changes nothing) and equals the acyclic reference, under Mamba2020 and DefaultPassGroup"""
  from pymtl3.passes.PassGroups import DefaultPassGroup
  from pymtl3.passes.mamba.PassGroups import Mamba2020
  cls = load_source(ck.workdir, src, clsname)
  N, K = spec['N'], spec['K']
  for flow, grp in [('Mamba2020', lambda: Mamba2020(print_line_trace=False)), ('DefaultPassGroup', DefaultPassGroup)]:
    case = {'source': src, 'cls': clsname, 'pass': 'Mamba2020', 'flow': flow, 'part': 'hub-sim', 'hub': spec}
    try:
      top = cls(); top.elaborate(); top.apply(grp())
      read = lambda: [int(x) for x in top.to_lane] + [int(x) for x in top.from_lane] + [int(top.out)]
      combs = sorted(top._dag.final_upblks - top.get_all_update_ff(), key=lambda b: (b.__name__, id(b)))
      for v in [3, 19, 0, 24, 200, 17]:
        top.in_ @= v
        top.sim_eval_combinational()
        ref_in = [v]
        for i in range(N - 1): ref_in.append(lane_f(K[i], ref_in[-1]))
        ref_out = [lane_f(K[i], ref_in[i]) for i in range(N)]
        ref = ref_in + ref_out + [ref_out[-1]]
        got = read()
        changed = None
        for b in combs:
          b()
          if read() != got: changed = (b.__name__, repr(top.get_update_block_host_component(b)) if b in top.get_all_update_blocks() else 'net', read()); break
        ck.count({'src': hash(src) & 0xffffffff, 'part': 'hub-sim', 'flow': flow, 'in': v}, nontrivial=True)
        if changed is not None:
          ck.violation('scc-unstable-state', {'flow': flow, 'what': 'sim_eval_combinational returned a state that is not a fixed point'},
                       dict(case, input=v), {'state': got, 'rerun_block': changed[0], 'host': changed[1], 'after': changed[2], 'reference': ref,
                        'oracle': 're-running any update block of the cyclic group after sim_eval_combinational must change no signal'})
          break
        if got != ref:
          ck.violation('scc-wrong-fixed-point', {'flow': flow, 'what': 'false loop settles on other values than the acyclic design'},
                       dict(case, input=v), {'state': got, 'reference': ref, 'signals': 'to_lane[*], from_lane[*], out'})
          break
    except Exception as e:
      ck.violation('scc-pass-raises', {'flow': flow, 'exception': type(e).__name__}, case,
                   {'exception': f'{type(e).__name__}: {e}'[:600], 'oracle': 'a false loop through signals must settle (no exception)'})

def multi_source(rng, uid):
  """2-4 instances of ONE child class `construct(s, en_a, en_b)`: its update_ff block writes ra under `if en_a:`, rb under
  `if en_b:`, rc under the `else:` (closure constants), q always; a comb block reads them all. Returns (source, class, spec)."""
  n = rng.choice([2, 2, 3, 4])
  combos = [(a, b) for a in (False, True) for b in (False, True)]
  inst = [rng.choice(combos) for _ in range(n)]
  if rng.random() < 0.6:                                      # the instance whose branches are dead comes first
    inst[0] = (False, rng.random() < 0.5); inst[-1] = (True, not inst[0][1])
  if len(set(inst)) == 1: inst[-1] = (not inst[0][0], not inst[0][1])
  func = rng.random() < 0.35
  nested = rng.random() < 0.3
  ch, top = f'Ch{os.getpid()}_{uid}', f'MM{os.getpid()}_{uid}'
  L = ['from pymtl3 import *', '', f'class {ch}( Component ):', '  def construct( s, en_a, en_b ):',
       '    s.in_ = InPort( Bits8 )', '    s.out = OutPort( Bits8 )']
  for r in ('ra', 'rb', 'rc', 'q'): L.append(f'    s.{r} = Wire( Bits8 )')
  if func: L += ['    @s.func', '    def bump_a():', '      s.ra <<= s.ra + s.in_']
  L += ['    @update_ff', '    def up_regs():', '      s.q <<= s.in_', '      if en_a:']
  if func: L += ['        bump_a()']
  elif nested: L += ['        if s.in_ != 0:', '          s.ra <<= s.ra + s.in_']
  else: L += ['        s.ra <<= s.ra + s.in_']
  L += ['      if en_b:', '        s.rb <<= s.rb + 1', '      else:', '        s.rc <<= s.rc + 2',
        '    @update', '    def up_out():', '      s.out @= s.ra ^ s.rb ^ s.rc ^ s.q', '',
        f'class {top}( Component ):', '  def construct( s ):', '    s.in_ = InPort( Bits8 )']
  for i, (a, b) in enumerate(inst):
    L += [f'    s.c{i} = {ch}( {a}, {b} )', f'    s.c{i}.in_ //= s.in_', f'    s.o{i} = OutPort( Bits8 )', f'    s.o{i} //= s.c{i}.out']
  return '\n'.join(L) + '\n', top, {'inst': [[bool(a), bool(b)] for a, b in inst], 'nested': nested and not func}

def check_multi_sim(ck, src, clsname, spec):
  """direct oracle on the REAL simulation under every pass group: each register whose guarded `<<=` is live follows
  state' = F(state, in) (independent reference below), holds otherwise; every live `<<=` target is double-buffered"""
  from pymtl3.passes.PassGroups import DefaultPassGroup
  from pymtl3.passes.mamba.PassGroups import HeuTopoUnrollSim, Mamba2020, UnrollSim
  cls = load_source(ck.workdir, src, clsname)
  inst, nested = spec['inst'], spec['nested']
  stim = [3, 0, 7, 255, 0, 1, 9, 4]
  for flow, grp in [('DefaultPassGroup', DefaultPassGroup), ('Mamba2020', lambda: Mamba2020(print_line_trace=False)),
                    ('UnrollSim', lambda: UnrollSim(print_line_trace=False)), ('HeuTopoUnrollSim', lambda: HeuTopoUnrollSim(print_line_trace=False))]:
    case = {'source': src, 'cls': clsname, 'pass': 'Mamba2020', 'flow': flow, 'part': 'multi-sim', 'multi': spec}
    top = cls(); top.elaborate()
    kids = [getattr(top, f'c{i}') for i in range(len(inst))]
    nodb = []
    for i, (a, b) in enumerate(inst):       # before the simulation pass replaces the signal objects by their values
      for r, live in (('q', True), ('ra', a), ('rb', b), ('rc', not b)):
        if live and not getattr(kids[i], r)._dsl.needs_double_buffer: nodb.append(f'c{i}.{r}')
    top.apply(grp())
    if nodb:
      ck.violation('ff-target-not-double-buffered', {'what': 'a register assigned with <<= is not in the flip list'}, case,
                   {'registers': nodb, 'instances(en_a,en_b)': inst, 'oracle': 'every signal a live `<<=` of an update_ff block assigns has needs_double_buffer (is flipped at the edge)'})
    st = [dict(ra=0, rb=0, rc=0, q=0) for _ in inst]
    for t, v in enumerate(stim):
      top.in_ @= v
      top.sim_eval_combinational()
      top.sim_tick()
      for i, (a, b) in enumerate(inst):
        o = st[i]; nw = dict(o); nw['q'] = v
        if a and (v != 0 or not nested): nw['ra'] = (o['ra'] + v) & 0xff
        if b: nw['rb'] = (o['rb'] + 1) & 0xff
        else: nw['rc'] = (o['rc'] + 2) & 0xff
        st[i] = nw
      got = [{r: int(getattr(k, r)) for r in ('ra', 'rb', 'rc', 'q')} for k in kids]
      outs = [int(getattr(top, f'o{i}')) for i in range(len(inst))]
      ref_outs = [x['ra'] ^ x['rb'] ^ x['rc'] ^ x['q'] for x in st]
      ck.count({'src': hash(src) & 0xffffffff, 'part': 'multi-sim', 'flow': flow, 't': t}, nontrivial=True)
      if got != st or outs != ref_outs:
        ck.violation('ff-not-F-of-pre-edge-state', {'flow': flow, 'what': 'register does not follow its next-state function'}, dict(case, inputs=stim[:t + 1]),
                     {'cycle': t, 'impl': got, 'ref': st, 'outs': outs, 'ref_outs': ref_outs, 'instances(en_a,en_b)': inst,
                      'oracle': "state' = F(state, in) on pre-edge values; a value assigned with <<= is committed at the edge"})
        break

def load_source(workdir, src, clsname):
  if (workdir, clsname, src) in _loaded: return _loaded[(workdir, clsname, src)]
  modname = f'pvmamba_{os.getpid()}_{clsname}'
  path = os.path.join(workdir, modname + '.py')
  with open(path, 'w') as f: f.write(src)
  spec = importlib.util.spec_from_file_location(modname, path)
  mod = importlib.util.module_from_spec(spec)
  sys.modules[modname] = mod
  spec.loader.exec_module(mod)
  _loaded[(workdir, clsname, src)] = getattr(mod, clsname)
  return _loaded[(workdir, clsname, src)]

# ---------------------------------------------------------------------------------------------------------------------
# running the real passes and reading their data
# ---------------------------------------------------------------------------------------------------------------------
class Labels:
  """stable small integers for block functions (labels are per run object; names for the reports)"""
  def __init__(self, top):
    blks = sorted(top._dag.final_upblks | top.get_all_update_ff(), key=lambda b: (b.__name__, id(b)))
    self.idx = {b: i for i, b in enumerate(blks)}
    self.blks = blks
  def __call__(self, b): return self.idx[b]
  def name(self, i): return self.blks[i].__name__

def meta_members(fn):
  g, out, i = fn.__globals__, [], 0
  while f'blk{i}' in g:
    out.append(g[f'blk{i}']); i += 1
  return out

def is_meta(fn): return getattr(fn, '__name__', '').startswith('meta_block')
def is_scc(fn): return getattr(fn, '__name__', '').startswith('wrapped_SCC')

def scc_groups(fn):
  """the groups of an SCC wrapper in call order: [[blk, ...], ...] (inline blocks = one group; meta blocks = one group each)"""
  src = inspect.getsource(fn)
  g = fn.__globals__
  calls = [m.group(1) for m in re.finditer(r'^\s*(\w+)\(\)', src, re.M) if m.group(1) in g and callable(g[m.group(1)]) and m.group(1) != fn.__name__]
  if not calls: raise InfraError(f'no calls found in {fn.__name__}:\n{src}')
  # the names are looked up in the wrapper's globals exactly as the generated code does when it runs: members are
  # function OBJECTS (two calls that resolve to one object are one block called twice)
  if any(is_meta(g[c]) for c in calls): return [meta_members(g[c]) if is_meta(g[c]) else [g[c]] for c in calls], True
  return [[g[c] for c in calls]], False

def run_mamba(cls):
  """GenDAGPass, WrapGreenletPass, Mamba2020Pass as the Mamba2020 pass group applies them (print_line_trace=False)"""
  from pymtl3.passes.sim.GenDAGPass import GenDAGPass
  from pymtl3.passes.sim.WrapGreenletPass import WrapGreenletPass
  import pymtl3.passes.mamba.Mamba2020Pass as M
  rtlgen.quiet_dump_dag()
  top = cls()
  top.elaborate()
  GenDAGPass()(top)
  WrapGreenletPass()(top)
  rec = {}
  orig = M.kosaraju_scc
  def recording(G, G_T):
    r = orig(G, G_T); rec['G'] = G; rec['sccs'], rec['gnew'] = r; return r
  M.kosaraju_scc = recording
  err = None
  try:
    p = M.Mamba2020Pass(print_line_trace=False)
    ff_in = list(top.get_all_update_ff())            # the set object schedule_ff iterates over (not mutated in between)
    try: p(top)
    except Exception as e: err = e
  finally:
    M.kosaraju_scc = orig
  return top, p, rec, ff_in, err

def own_sccs(nodes, edges):
  """SCC id per node by mutual reachability (independent of kosaraju_scc); nodes are hashable"""
  succ = {u: [] for u in nodes}
  for u, v in edges: succ[u].append(v)
  reach = {}
  for u in nodes:
    seen, todo = set(), [u]
    while todo:
      x = todo.pop()
      for y in succ[x]:
        if y not in seen: seen.add(y); todo.append(y)
    reach[u] = seen
  comp, k = {}, 0
  for u in nodes:
    if u in comp: continue
    comp[u] = k
    for v in reach[u]:
      if u in reach[v]: comp[v] = k
    k += 1
  return comp

def flush_reasons(groups, br):
  """why each group but the last was closed (coverage histogram only); br: member -> effective branchiness"""
  out = []
  for gi, g in enumerate(groups[:-1]):
    s = sum(br(x) for x in g); c = sum(1 for x in g if br(x) > 0)
    nxt = groups[gi + 1]
    if len(g) and br(g[-1]) >= 20 and c == 1: out.append('single>=20')
    elif nxt and br(nxt[0]) == 0 and s > 0 and s < 20 and c < 5: out.append('next-is-zero')
    elif s >= 20 or (g and s + br(g[-1]) >= 20): out.append('sum')
    else: out.append('count')
  return out

def check_mamba(ck, src, clsname, part, lines, meta):
  """runs the real Mamba2020 flow on one generated class; direct oracle at once; model requests are appended to `lines`"""
  cls = load_source(ck.workdir, src, clsname)
  top, p, rec, ff_in, err = run_mamba(cls)
  case0 = {'source': src, 'cls': clsname, 'pass': 'Mamba2020'}
  if err is not None:
    # the generated designs are legal (acyclic, or rings through signals): the pass has no reason to raise
    ck.violation('mamba-pass-raises', {'pass': 'Mamba2020Pass', 'exception': type(err).__name__}, dict(case0, part='__call__'),
                 {'exception': f'{type(err).__name__}: {err}'[:600], 'oracle': 'Mamba2020Pass must schedule every legal design (no block may be left unscheduled)'})
    return
  lab = Labels(top)
  ffs = top.get_all_update_ff()
  names = lambda xs: [lab.name(x) for x in xs]
  # ------------------------------------------------ update_ff
  if part in ('all', 'ff'):
    groups = []
    for fn in top._sched.schedule_ff:
      groups.append([lab(b) for b in (meta_members(fn) if is_meta(fn) else [fn])])
    flat = [x for g in groups for x in g]
    want = sorted(lab(b) for b in ffs)
    case = dict(case0, part='schedule_ff')
    if sorted(flat) != want or any(not g for g in groups):
      missing = sorted(set(want) - set(flat)); dup = sorted({x for x in flat if flat.count(x) > 1})
      ck.violation('mamba-ff-block-lost' if missing else 'mamba-ff-schedule-wrong',
                   {'pass': 'Mamba2020Pass.schedule_ff', 'missing': bool(missing), 'duplicate': bool(dup)}, case,
                   {'missing': names(missing), 'duplicated': names(dup), 'meta_blocks': [names(g) for g in groups],
                    'oracle': 'every update_ff block must be in exactly one (non-empty) meta block of top._sched.schedule_ff'})
    eff = lambda b: 0 if p.only_loop_at_top[b] else p.branchiness[b]
    req = [[p.branchiness[b], bool(p.only_loop_at_top[b]), lab(b)] for b in ff_in]
    lines.append(leanio.line('mamba', 'packff', req)); meta.append(('ff', case, groups, lab))
    ck.count({'src': hash(src) & 0xffffffff, 'part': 'ff'}, nontrivial=len(groups) >= 2)
    ck.hist('mamba_ff_blocks', len(ff_in)); ck.hist('mamba_ff_metas', len(groups))
    for r in flush_reasons([[lab.blks[x] for x in g] for g in groups], eff): ck.hist('mamba_ff_flush', r)
  if part == 'ff': return
  # ------------------------------------------------ comb: topological order of SCCs + packing
  V = top._dag.final_upblks - ffs
  case = dict(case0, part='update_schedule')
  if not V:
    if top._sched.update_schedule: raise InfraError('update_schedule not empty without comb blocks')
    return
  sccs, gnew = rec['sccs'], rec['gnew']
  blk2scc = {b: i for i, s_ in enumerate(sccs) for b in s_}
  sched = top._sched.update_schedule
  if any(is_meta(fn) for fn in sched): ggroups = [meta_members(fn) if is_meta(fn) else [fn] for fn in sched]
  else: ggroups = [list(sched)] if sched else []
  flat_blocks, scc_inner, id_groups = [], [], []
  for g in ggroups:
    ids = []
    for fn in g:
      if is_scc(fn):
        inner, was_meta = scc_groups(fn)
        mem = [b for gg in inner for b in gg]
        sid = {blk2scc.get(b) for b in mem}
        if len(sid) != 1 or None in sid: raise InfraError(f'{fn.__name__} mixes SCCs {sid}')
        ids.append(sid.pop()); scc_inner.append((fn, inner, was_meta)); flat_blocks += [(b, fn) for b in mem]
      elif fn in blk2scc:
        ids.append(blk2scc[fn]); flat_blocks.append((fn, None))
      else: raise InfraError(f'unknown entry {fn} in update_schedule')
    id_groups.append(ids)
  # direct oracle (independent of the model and of kosaraju_scc)
  edges = [(u, v) for (u, v) in top._dag.all_constraints if u in V and v in V]
  comp = own_sccs(list(V), edges)
  occ = {}
  for pos, (b, w) in enumerate(flat_blocks): occ.setdefault(b, []).append(pos)
  missing = [b for b in V if b not in occ]
  ext_in = {}
  for (u, v) in edges:
    if comp[u] != comp[v]: ext_in[v] = ext_in.get(v, 0) + 1
  dup = [b for b, ps in occ.items() if len(ps) > 1 and not (flat_blocks[ps[0]][1] is not None and ext_in.get(b, 0) >= len(ps))]
  stray = [b for b in occ if b not in V]
  empty = any(not g for g in ggroups) or any(not gg for (_, inner, _) in scc_inner for gg in inner)
  if missing or dup or stray or empty:
    ck.violation('mamba-comb-block-lost' if missing else 'mamba-comb-schedule-wrong',
                 {'pass': 'Mamba2020Pass.schedule_intra_cycle', 'missing': bool(missing), 'duplicate': bool(dup)}, case,
                 {'missing': sorted(b.__name__ for b in missing), 'duplicated': sorted(b.__name__ for b in dup),
                  'not_comb': sorted(b.__name__ for b in stray), 'empty_meta_block': empty,
                  'meta_blocks': [[getattr(f, '__name__', '?') for f in g] for g in ggroups],
                  'oracle': 'every comb block of final_upblks must be called exactly once by the flattened top._sched.update_schedule'})
  bad = [(u.__name__, v.__name__) for (u, v) in edges if comp[u] != comp[v] and u in occ and v in occ and not max(occ[u]) < min(occ[v])]
  if bad:
    ck.violation('mamba-comb-order', {'pass': 'Mamba2020Pass.schedule_intra_cycle', 'what': 'constraint not respected'}, case,
                 {'pairs': sorted(bad)[:5], 'order': [b.__name__ for b, _ in flat_blocks],
                  'oracle': 'for every constraint (u, v) of top._dag.all_constraints between different SCCs, u runs before v'})
  # model: schedule of SCC ids
  n = len(sccs)
  br, special = [], []
  for i, s_ in enumerate(sccs):
    if len(s_) > 1: br.append(0); special.append(i)
    else:
      b = next(iter(s_)); br.append(p.branchiness[b])
      if p.only_loop_at_top[b]: special.append(i)
  es = [[u, v] for u in range(n) for v in gnew[u]]
  lines.append(leanio.line('mamba', 'sched', [n], ['edges'] + es, ['br'] + br, ['special'] + special))
  meta.append(('sched', dict(case, sccs=[sorted(b.__name__ for b in s_) for s_ in sccs]), id_groups, None))
  ck.count({'src': hash(src) & 0xffffffff, 'part': 'sched'}, nontrivial=(len(id_groups) >= 2 or len(es) >= 1))
  ck.hist('mamba_sccs', n); ck.hist('mamba_metas', len(id_groups)); ck.hist('mamba_cond_edges', min(len(es), 40))
  kb = lambda i: 0 if i in special else br[i]
  for r in flush_reasons(id_groups, kb): ck.hist('mamba_comb_flush', r)
  # model: packing inside each nontrivial SCC (the BFS order is the one the wrapper shows)
  for fn, inner, was_meta in scc_inner:
    order = [b for gg in inner for b in gg]
    req = [[p.branchiness[b], bool(p.only_loop_at_top[b]), lab(b)] for b in order]
    lines.append(leanio.line('mamba', 'packscc', req))
    meta.append(('scc', dict(case, part=f'compile_scc {fn.__name__}'), [[lab(b) for b in gg] for gg in inner], lab))
    ck.count({'src': hash(src) & 0xffffffff, 'part': fn.__name__}, nontrivial=len(inner) >= 2)
    ck.hist('mamba_scc_size', len(order)); ck.hist('mamba_scc_metas', len(inner))
    eff = lambda b: 0 if p.only_loop_at_top[b] else p.branchiness[b]
    for r in flush_reasons(inner, eff): ck.hist('mamba_scc_flush', r)

def check_heutopo(ck, src, clsname, lines, meta):
  from pymtl3.dsl.errors import UpblkCyclicError
  from pymtl3.passes.mamba.PassGroups import HeuTopoUnrollSim
  from pymtl3.passes.mamba.HeuristicTopoPass import CountBranchesLoops
  rtlgen.quiet_dump_dag()
  cls = load_source(ck.workdir, src, clsname)
  top = cls()
  cyclic = False
  case = {'source': src, 'cls': clsname, 'pass': 'HeuTopoUnrollSim', 'part': 'update_schedule'}
  try: top.apply(HeuTopoUnrollSim(print_line_trace=False))
  except UpblkCyclicError: cyclic = True
  except Exception as e:
    ck.violation('heutopo-pass-raises', {'pass': 'HeuristicTopoPass', 'exception': type(e).__name__}, case,
                 {'exception': f'{type(e).__name__}: {e}'[:600], 'oracle': 'HeuristicTopoPass schedules every acyclic design and raises UpblkCyclicError otherwise'})
    return
  ffs = top.get_all_update_ff()
  V = sorted(top._dag.final_upblks - ffs, key=lambda b: (b.__name__, id(b)))
  if not V: return
  idx = {b: i for i, b in enumerate(V)}
  edges = [(u, v) for (u, v) in top._dag.all_constraints if u in idx and v in idx]
  sched = list(top._sched.update_schedule)
  comp = own_sccs(V, edges)
  has_cycle = len(set(comp.values())) < len(V)
  if cyclic != has_cycle:
    ck.violation('heutopo-cycle-verdict', {'pass': 'HeuristicTopoPass', 'raised': cyclic}, case,
                 {'raised_UpblkCyclicError': cyclic, 'design_has_cycle': has_cycle, 'oracle': 'UpblkCyclicError iff the constraint graph has a cycle'})
  pos = {}
  for k, b in enumerate(sched): pos.setdefault(b, []).append(k)
  if not cyclic:
    missing = [b.__name__ for b in V if b not in pos]; dup = [b.__name__ for b, ps in pos.items() if len(ps) > 1]
    if missing or dup or len(sched) != len(V):
      ck.violation('heutopo-block-lost' if missing else 'heutopo-schedule-wrong', {'pass': 'HeuristicTopoPass', 'missing': bool(missing)}, case,
                   {'missing': missing, 'duplicated': dup, 'oracle': 'every comb block exactly once in top._sched.update_schedule'})
    bad = [(u.__name__, v.__name__) for (u, v) in edges if u in pos and v in pos and not pos[u][0] < pos[v][0]]
    if bad:
      ck.violation('heutopo-order', {'pass': 'HeuristicTopoPass', 'what': 'constraint not respected'}, case,
                   {'pairs': sorted(bad)[:5], 'order': [b.__name__ for b in sched], 'oracle': 'u before v for every constraint (u, v)'})
  v = CountBranchesLoops()
  br = []
  for b in V:
    if b in top._dag.genblks: br.append(0)
    else: br.append(v.enter(top.get_update_block_host_component(b).get_update_block_info(b)[-1])[0])
  rank = {x: r for r, x in enumerate(sorted(id(b) for b in V))}
  lines.append(leanio.line('mamba', 'heutopo', [len(V)], ['edges'] + [[idx[u], idx[v]] for (u, v) in edges], ['br'] + br,
                           ['ids'] + [rank[id(b)] for b in V]))
  meta.append(('heu', dict(case, blocks=[b.__name__ for b in V]), [idx.get(b, -1) for b in sched], cyclic))
  ck.count({'src': hash(src) & 0xffffffff, 'part': 'heutopo'}, nontrivial=len(edges) >= 1)
  ck.hist('heutopo_blocks', len(V)); ck.hist('heutopo_cyclic', cyclic)

def compare(ck, lines, meta):
  if not lines: return
  replies = ck.drv('mamba').batch(lines)
  for (kind, case, impl, extra), rep, req in zip(meta, replies, lines):
    got = leanio.parse_sexp(rep)[0]
    if kind == 'heu':
      model = [int(x) for x in got]
      nblk = len(case['blocks'])
      if extra:      # the real pass raised: the model must stop early too (and agree on the part scheduled before the raise)
        if len(model) == nblk or model != impl:
          ck.disagreement('Model/Mamba heuSched≈HeuristicTopoPass (cyclic)', dict(case, request=req), model, impl)
      elif model != impl:
        ck.disagreement('Model/Mamba heuSched≈HeuristicTopoPass', dict(case, request=req), model, impl)
      continue
    model = [[int(x) for x in g] for g in got]
    if model != impl:
      what = {'ff': 'Model/Mamba packFF≈schedule_ff', 'sched': 'Model/Mamba mambaSched≈schedule_intra_cycle', 'scc': 'Model/Mamba packSCC≈compile_scc'}[kind]
      ck.disagreement(what, dict(case, request=req), model, impl)

def real_insert_sortedlist():
  """the nested function `insert_sortedlist` of Mamba2020Pass.schedule_intra_cycle, compiled from the source text of /repo"""
  import ast
  import pymtl3.passes.mamba.Mamba2020Pass as M
  tree = ast.parse(open(M.__file__).read())
  fns = [nd for nd in ast.walk(tree) if isinstance(nd, ast.FunctionDef) and nd.name == 'insert_sortedlist']
  if len(fns) != 1: raise InfraError('insert_sortedlist not found in Mamba2020Pass.schedule_intra_cycle')
  ns = {}
  exec(compile(ast.Module(body=[fns[0]], type_ignores=[]), M.__file__, 'exec'), ns)
  return ns['insert_sortedlist']

def check_insert(ck, n):
  """insert_sortedlist alone, on sorted queues that also contain equal keys (the pass itself never produces them)"""
  rng = ck.rng
  ins = real_insert_sortedlist()
  lines, meta = [], []
  for _ in range(n):
    keys = sorted((rng.randrange(4), -rng.randrange(1, 7)) for _ in range(rng.randrange(0, 9)))
    arr = [(k, i) for i, k in enumerate(keys)]
    key = (rng.randrange(4), -rng.randrange(1, 7))
    real = list(arr)
    ins(real, key, 99)
    case = {'arr': [[k[0], -k[1], i] for k, i in arr], 'key': [key[0], -key[1]], 'pass': 'Mamba2020', 'part': 'insert_sortedlist'}
    keys_after = [k for k, _ in real]
    if keys_after != sorted(keys_after) or sorted(real) != sorted(arr + [(key, 99)]):
      ck.violation('mamba-insert-sortedlist', {'pass': 'Mamba2020Pass.insert_sortedlist'}, case,
                   {'result': [[k[0], -k[1], i] for k, i in real], 'oracle': 'the queue stays sorted and gains exactly the new entry'})
    lines.append(leanio.line('mamba', 'insert', case['arr'], key[0], -key[1], 99))
    meta.append((case, [[k[0], -k[1], i] for k, i in real]))
    ck.count({'part': 'insert', 'arr': case['arr'], 'key': case['key']}, nontrivial=len(arr) >= 1)
  for (case, impl), rep in zip(meta, ck.drv('mamba').batch(lines)):
    model = [[int(x) for x in e] for e in leanio.parse_sexp(rep)[0]]
    if model != impl: ck.disagreement('Model/Mamba insertSorted≈insert_sortedlist', case, model, impl)

def run(ck, part='all'):
  """part: 'all' (C01), 'ff' (C07: schedule_ff + several instances of one class with closure constants),
  'scc' (C11: rings and hub designs only)"""
  rng = ck.rng
  quick = ck.tier == 'quick'
  n = {'all': 250, 'ff': 100, 'scc': 60}[part] if quick else {'all': 3000, 'ff': 1500, 'scc': 800}[part]
  lines, meta = [], []
  kinds = ['ff', 'dag', 'ring', 'mix', 'dag', 'ring']
  def one(src, clsname, tag, heu=True):
    ck.extra_cov.setdefault('mamba_sample_source', src)
    ck.hist('mamba_design_kind', tag)
    try:
      check_mamba(ck, src, clsname, 'all' if part == 'scc' else part, lines, meta)
      if part == 'all' and heu: check_heutopo(ck, src, clsname, lines, meta)
    except InfraError: raise
    except Exception as e:
      raise InfraError(f'scheduler stream: {type(e).__name__}: {e}\n{src}')
  for k in range(n):
    kind = 'ff' if part == 'ff' else 'ring' if part == 'scc' else (kinds[k] if k < len(kinds) else None)
    d = gen_design(rng, k, kind)
    one(d.source(), d.cls_name(), d.tag)
    if len(ck.violations) > 10: break
  # several instances of one component class
  if part in ('all', 'scc'):
    for k in range((20 if part == 'all' else 30) if quick else 300):
      src, clsname, spec = hub_source(rng, k)
      one(src, clsname, 'hub')
      check_hub_sim(ck, src, clsname, spec)
      if len(ck.violations) > 10: break
  if part == 'ff':
    for k in range(25 if quick else 300):
      src, clsname, spec = multi_source(rng, k)
      check_multi_sim(ck, src, clsname, spec)          # first: the first construction of the class is the one under test
      one(src, clsname, 'multi')
      if len(ck.violations) > 10: break
  compare(ck, lines, meta)
  if part == 'all': check_insert(ck, 300 if quick else 5000)
  ck.extra_cov['mamba_designs'] = n

def replay(ck, data):
  """re-run the recorded generated source through both passes, print model and implementation, 0 = all fine"""
  case = data.get('case') or {}
  src, clsname = case.get('source'), case.get('cls')
  if case.get('part') == 'insert_sortedlist':
    arr = [((b, -c), i) for b, c, i in case['arr']]; key = (case['key'][0], -case['key'][1])
    real_insert_sortedlist()(arr, key, 99)
    impl = [[k[0], -k[1], i] for k, i in arr]
    rep = ck.drv('mamba').batch([leanio.line('mamba', 'insert', case['arr'], case['key'][0], case['key'][1], 99)])[0]
    model = [[int(x) for x in e] for e in leanio.parse_sexp(rep)[0]]
    print('model', model); print('impl ', impl)
    return 0 if model == impl and [e[:2] for e in impl] == sorted(([e[0], e[1]] for e in impl), key=lambda k: (k[0], -k[1])) else 1
  if not src or not clsname:
    print('no generated source in this replay'); return 1
  print(data.get('kind'), data.get('signature')); print(str(data.get('detail'))[:1500])
  lines, meta = [], []
  if case.get('multi'): check_multi_sim(ck, src, clsname, case['multi'])
  if case.get('hub'): check_hub_sim(ck, src, clsname, case['hub'])
  check_mamba(ck, src, clsname, 'all', lines, meta)
  check_heutopo(ck, src, clsname, lines, meta)
  replies = ck.drv('mamba').batch(lines)
  for (kind, c, impl, _), rep in zip(meta, replies):
    print(f"{c['pass']} {c['part']}:\n  model {rep}\n  impl  {impl}")
  compare(ck, lines, meta)
  for v in ck.violations: print('VIOLATION', v.kind, v.signature, str(v.detail)[:800])
  for b in ck.breaks: print('DISAGREEMENT', b['correspondence'], 'model', b['model'], 'impl', b['impl'])
  return 1 if (ck.violations or ck.breaks) else 0
