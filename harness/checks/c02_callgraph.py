"""C02 / C01 / C11 (foundation), helper of c02.py — the `@s.func` call expansion of `ComponentLevel2._collect_vars`:
the read / write set of an update block contains everything the block can touch through helper functions.

proof:          lean/PymtlVerif/Props/C02c.lean over Model/CallGraph.lean (the nested `dfs( u, stk )` with the `caller` path,
                per block and as the accumulating loop over `upblk_calls.items()`): expand_exact (expanded set = own set +
                sets of every reachable function), expand_error_iff_cycle / fuel_suffices / fuel_irrelevant, fold_entry_eq /
                expand_local / fold_perm / collectAll_entry_eq (a block's entry depends on that block and its component's
                function table only, whatever was expanded before, in every order), ff_marks_exact / fold_marks_exact
correspondence: generated components (1-6 helpers per component in DAG call graphs: chains, diamonds, helpers shared by 2-4
                blocks, helpers that only call helpers, unreached helpers, callees that are not functions (a method of a child),
                child components incl. two instances of one class, update_ff blocks writing through helpers; and cyclic call
                graphs, reachable and unreachable) are elaborated by the REAL code; the model input is read off the real
                per-component tables (func_reads / func_writes / func_calls / upblk_reads / upblk_writes / upblk_calls)
                BEFORE `_collect_vars` runs (it merges in place), the output (top._dsl.all_upblk_reads / all_upblk_writes,
                needs_double_buffer flags, InvalidFuncCallError) AFTER; compared exactly with `expand` and with the dicts of `collect`
direct oracle:  independent of the model and of pymtl3's metadata: (a) an own walk over the ASTs of the generated source
                (attribute / slice mentions of `s.<signal>` per function, closure over the helper calls with a fresh visited
                set per block) gives the bits a block can read / write: all must be covered by the block's expanded sets;
                (b) every helper that really executes when the block's function is run (sys.setprofile on the simulated
                design) has its directly mentioned bits in the block's sets; (c) for every (non-ff writer, other reader)
                pair of blocks sharing such a bit, writer -> reader is in GenDAGPass's all_constraints; (d) a call cycle
                reachable from a block is rejected with InvalidFuncCallError
"""
import ast, hashlib, importlib.util, itertools, os, re, sys

from ..common import leanio
from ..common.leanio import InfraError

MODULE = 'PymtlVerif.Props.C02c'
DRIVERS = ['callgraph']
THEOREMS = ['PV.C02c.' + t for t in [
  'expand_exact', 'expand_error_iff_cycle', 'expand_ok_iff_acyclic', 'fuel_suffices', 'fuel_irrelevant',
  'fold_entry_eq', 'fold_other_keys', 'fold_error_iff', 'expand_local', 'fold_perm', 'fold_perm_error',
  'collectAll_entry_eq', 'ff_marks_block', 'ff_marks_exact', 'fold_marks_exact']]
THEOREM_MODULE = {t: MODULE for t in THEOREMS}
TRUSTED = [
  'Model/CallGraph.lean stands for the call expansion inside ComponentLevel2._collect_vars (nested dfs with the `caller` '
  'path, no visited memo; Python sets are lists, compared as sets; dict = insertion-ordered association list); its input '
  'tables are data: they are read off the real components by c02_callgraph.Snapshot between _elaborate_read_write_func '
  'and _collect_vars (an instance-level wrapper of top._elaborate_declare_vars; /repo is not modified); how those tables '
  'come out of the source (AstHelper.extract_reads_writes_calls, the per-class cache of _cache_func_meta, '
  'extract_obj_from_names) is NOT modelled: it is covered by the direct oracle only (own AST walk of the generated source '
  'vs the expanded sets, so a function whose reads / writes / calls are lost before the expansion shows as a missing bit)',
]
ASSUMPTIONS = [
  'call expansion: functions are local to their component (calls resolve through s._dsl.name_func of the block\'s host); '
  'block ids are distinct over the design (hypothesis of fold_entry_eq / collectAll_entry_eq, "different update blocks '
  'will always have different ids" in the code; checked on every extracted design)',
]
RULE = ('call-expansion clause: a design = a top component with 0-2 children (two may share a class) and optionally a child with a '
        'non_blocking method; per component 1-6 @s.func helpers (random DAG / chain / diamond call graphs over a random definition '
        'order), 1-5 update / update_ff blocks calling 0-3 helpers, one helper shared by 2-4 blocks in most designs; helpers reached '
        'from one block may write (whole signals or slices; <<= under update_ff), shared helpers read only (one writer per bit); '
        'variants: call cycle reachable from a block, call cycle among unreached helpers, helper written by several blocks '
        '(MultiWriterError after the expansion; metadata still compared), slices written with <<= by helpers of update_ff blocks. non-trivial = some block reaches a helper through another helper or shares one')

_uid = itertools.count()
NAMES = ['fx', 'fy', 'fz', 'fw', 'fa', 'fb', 'fq', 'fh']
NB = 8

# ---------------------------------------------------------------------------------------------
# generator
# ---------------------------------------------------------------------------------------------
class Fn:
  def __init__(s, name, kind):
    s.name, s.kind = name, kind          # kind: 'func' | 'update' | 'update_ff'
    s.reads, s.writes = [], []           # (signal index, lo, hi)
    s.calls = []                         # (callee name, conditional?)
    s.op = '@='
    s.method = False                     # calls s.cnt.bump()

def gen_component(rng, cname, variant, with_cnt):
  """one component class; variant: 'dag' | 'cyc' (cycle reachable from a block) | 'cyc-unreached' | 'multi' (a writing
  helper shared by two comb blocks) | 'ffslice' (every helper of an update_ff block writes a register with <<=: the signal is
  marked as double-buffered through the whole call chain; whole signals only since /repo rejects a bit / slice on the left of
  '<<=' inside a helper (fix: R12 ff-helper-part-write; that rule is exercised by the C09 / C07 operator-table stream))"""
  F = rng.choice([1, 2, 2, 3, 3, 4, 4, 5, 6]); B = rng.choice([1, 2, 2, 3, 3, 4, 5])
  if variant == 'cyc-unreached': F = max(F, 3)
  if variant == 'multi': B = max(B, 2)
  hn = rng.sample(NAMES, F)                                  # rank order (calls go from lower to higher rank)
  helpers = {n: Fn(n, 'func') for n in hn}
  blocks = {}
  for i in range(B):
    blocks[f'up{i}'] = Fn(f'up{i}', 'update_ff' if rng.random() < 0.3 or (variant == 'ffslice' and i == 0) else 'update')
  # call graph among the helpers
  free = hn[-2:] if variant == 'cyc-unreached' else []       # kept away from every block
  shape = rng.choice(['rand', 'rand', 'chain', 'diamond', 'dense'])
  main = [n for n in hn if n not in free]
  if shape == 'chain':
    for a, b in zip(main, main[1:]): helpers[a].calls.append((b, rng.random() < 0.2))
  elif shape == 'diamond' and len(main) >= 4:
    for a, b in [(0, 1), (0, 2), (1, 3), (2, 3)]: helpers[main[a]].calls.append((main[b], False))
    for i in range(4, len(main)): helpers[main[rng.randrange(i)]].calls.append((main[i], rng.random() < 0.2))
  else:
    p = 0.8 if shape == 'dense' else rng.choice([0.3, 0.5])
    for i, a in enumerate(main):
      for b in main[i + 1:]:
        if rng.random() < p: helpers[a].calls.append((b, rng.random() < 0.2))
  # calls of the blocks
  bl = list(blocks.values())
  for b in bl:
    for n in rng.sample(main, min(len(main), rng.choice([0, 1, 1, 2, 3]))): b.calls.append((n, rng.random() < 0.15))
  if main and len(bl) >= 2 and rng.random() < 0.7:           # one helper shared by 2-4 blocks
    sh = rng.choice(main)
    for b in rng.sample(bl, min(len(bl), rng.choice([2, 2, 3, 4]))):
      if sh not in [c for c, _ in b.calls]: b.calls.append((sh, False))
  if variant == 'cyc-unreached':
    a, b = free
    helpers[a].calls.append((b, False)); helpers[b].calls.append((a, False))
    if main and rng.random() < 0.5: helpers[a].calls.append((rng.choice(main), False))
  # reachability (generator side: only to keep the design legal, never used by a verdict)
  def reach(f):
    seen, todo = set(), [c for c, _ in f.calls]
    while todo:
      x = todo.pop()
      if x in seen: continue
      seen.add(x); todo += [c for c, _ in helpers[x].calls]
    return seen
  owners = {n: [] for n in hn}
  for b in bl:
    for n in reach(b): owners[n].append(b)
  if variant == 'cyc':
    cands = [n for n in hn if owners[n]]
    if not cands:
      b = rng.choice(bl); b.calls.append((hn[0], False)); cands = [hn[0]]
    h = rng.choice(cands)
    anc = [a for a in hn if a == h or h in reach(helpers[a])]
    helpers[h].calls.append((rng.choice(anc), False))          # back edge (a self-call when anc == [h])
    # the back edge can make helpers reachable from further blocks: who may write (single owner) is decided on the final graph,
    # so that the call cycle stays the only defect of the design (a helper writing with the other block kind's operator is rejected too)
    owners = {n: [] for n in hn}
    for b in bl:
      for n in reach(b): owners[n].append(b)
  # signals: sources first, then one group per writer; comb blocks read only sources, ff-written signals and the groups of
  # comb blocks of lower dataflow rank (keeps the design schedulable)
  nsig = rng.choice([2, 3]); sources = list(range(nsig))
  def fresh():
    nonlocal nsig
    nsig += 1; return nsig - 1
  def rd(pool):
    i = rng.choice(pool); r = rng.random()
    return (i, 0, NB) if r < 0.6 else (i, 0, 4) if r < 0.75 else (i, 4, 8) if r < 0.9 else (i, 2, 6)
  def wr(f, sliced_ok):
    i = fresh(); r = rng.random()
    if not sliced_ok or r < 0.6: f.writes.append((i, 0, NB))
    elif r < 0.8: f.writes.append((i, 0, 4))
    else: f.writes += [(i, 0, 4), (i, 4, 8)]
    return i
  ffw, written = [], []
  order = [b for b in bl if b.kind == 'update_ff'] + rng.sample([b for b in bl if b.kind == 'update'], sum(b.kind == 'update' for b in bl))
  group = {}
  for b in order:
    isff = b.kind == 'update_ff'
    b.op = '<<=' if isff else '@='
    mine = []
    for _ in range(rng.choice([0, 1, 1, 2])): mine.append(wr(b, not isff))
    for n in hn:
      if owners[n] == [b]:
        helpers[n].op = b.op
        if rng.random() < 0.6 or variant == 'ffslice': mine.append(wr(helpers[n], not isff))
    group[b.name] = mine
    (ffw if isff else written).extend(mine)
  allsig = list(range(nsig))
  lower = list(sources) + ffw
  pool_of = {}
  for b in order:
    isff = b.kind == 'update_ff'
    pool = allsig if isff else list(lower)
    pool_of[b.name] = pool
    for _ in range(rng.choice([0, 1, 2, 3])): b.reads.append(rd(pool))
    for n in hn:
      if owners[n] == [b]:
        for _ in range(rng.choice([0, 1, 2])): helpers[n].reads.append(rd(pool))
    if not isff: lower += group[b.name]
  for n in hn:
    if len(owners[n]) >= 2:
      # a shared helper may read what its lowest-ranked comb owner may read (the pools grow along `order`)
      pool = min((pool_of[o.name] for o in owners[n]), key=len)
      for _ in range(rng.choice([1, 1, 2, 3])): helpers[n].reads.append(rd(pool))
    elif not owners[n]:
      for _ in range(rng.choice([0, 1, 2])): helpers[n].reads.append(rd(allsig))
      if rng.random() < 0.5: helpers[n].writes.append((rng.choice(allsig), 0, NB))   # never reached: must not count
  if variant == 'multi':
    shared = [n for n in hn if sum(o.kind == 'update' for o in owners[n]) >= 2 and all(o.kind == 'update' for o in owners[n])]
    if not shared:
      # share the last helper between two comb blocks -- only when that keeps every block that reaches it (and everything it
      # reaches) a comb block: /repo rejects an '@=' helper reached from an update_ff block (fix R13 helper-op-rule); block kinds
      # are not changed here (the read pools above depend on them)
      cb = [x for x in bl if x.kind == 'update']
      down = {hn[-1]} | reach(helpers[hn[-1]])
      if len(cb) >= 2 and all(o.kind == 'update' for n in down for o in owners[n]) and not any(helpers[n].writes and helpers[n].op != '@=' for n in down):
        for x in cb[:2]:
          if hn[-1] not in [c for c, _ in x.calls]: x.calls.append((hn[-1], False))
        shared = [hn[-1]]
    if shared:
      helpers[shared[0]].writes.append((fresh(), 0, NB)); helpers[shared[0]].op = '@='
  if with_cnt:
    cand = list(helpers.values()) + [b for b in bl if b.kind == 'update']
    for f in rng.sample(cand, min(len(cand), rng.choice([1, 2]))): f.method = True
  # source
  L = [f'class {cname}( Component ):', '  def construct( s ):']
  for i in range(nsig): L.append(f'    s.w{i} = Wire( Bits{NB} )')
  if with_cnt: L.append('    s.cnt = CGCnt()')
  fns = list(helpers.values()) + bl
  rng.shuffle(fns)
  for f in fns:
    # a block that calls a method port itself must be an update_once block (ComponentLevel4 check)
    L.append('    @s.func' if f.kind == 'func' else '    @update_once' if f.method else f'    @{f.kind}')
    L.append(f'    def {f.name}():')
    L.append(f'      t = Bits{NB}( {rng.randrange(1, 200)} )')
    body = [('r', x) for x in f.reads] + [('c', x) for x in f.calls]
    rng.shuffle(body)
    for k, x in body:
      if k == 'r':
        i, lo, hi = x
        L.append(f'      t = t + s.w{i}' if (lo, hi) == (0, NB) else f'      t = t + zext( s.w{i}[{lo}:{hi}], {NB} )')
      else:
        n, cond = x
        if cond: L += [f'      if t > {rng.randrange(0, 255)}:', f'        t = t + {n}()']
        elif rng.random() < 0.2: L.append(f'      {n}()')
        else: L.append(f'      t = t + {n}()')
    if f.method: L.append('      s.cnt.bump()')
    for (i, lo, hi) in f.writes:
      L.append(f'      s.w{i} {f.op} t' if (lo, hi) == (0, NB) else f'      s.w{i}[{lo}:{hi}] {f.op} t[{lo}:{hi}]')
    if f.kind == 'func': L.append('      return t')
  return '\n'.join(L)

CNT_SRC = '''class CGCnt( Component ):
  def construct( s ):
    s.n = 0
  @non_blocking( lambda s: True )
  def bump( s, v=0 ):
    s.n += 1
'''

def gen_design(rng, uid):
  r = rng.random()
  variant = 'dag' if r < 0.64 else 'cyc' if r < 0.80 else 'cyc-unreached' if r < 0.89 else 'multi' if r < 0.95 else 'ffslice'
  with_cnt = rng.random() < 0.25
  nk = rng.choice([0, 0, 1, 2, 2])
  dup = nk == 2 and rng.random() < 0.5                          # two instances of one class (per-class cache of the names)
  ncls = nk - 1 if dup else nk
  # only one component class of the design carries the variant; the others are plain DAGs
  where = rng.randrange(ncls + 1) if variant != 'dag' else -1   # ncls = the top
  kid_cls, srcs = [], []
  for k in range(ncls):
    cn = f'CG{uid}_K{k}'
    srcs.append(gen_component(rng, cn, variant if where == k else 'dag', False)); kid_cls.append(cn)
  if dup: kid_cls.append(kid_cls[0])
  top = f'CG{uid}_Top'
  tsrc = gen_component(rng, top, variant if where == ncls else 'dag', with_cnt)
  lines = tsrc.split('\n')
  at = 2
  kids = [f'    s.k{k} = {cn}()' for k, cn in enumerate(kid_cls)]
  if rng.random() < 0.5: at = next(i for i, l in enumerate(lines) if l.startswith('    @'))      # children after the signals
  lines[at:at] = kids
  src = 'from pymtl3 import *\n\n' + (CNT_SRC + '\n' if with_cnt else '') + '\n\n'.join(srcs + ['\n'.join(lines)]) + '\n'
  return src, top, variant

# ---------------------------------------------------------------------------------------------
# the direct oracle's own view of the source
# ---------------------------------------------------------------------------------------------
class Walk:
  """per class: function name -> kind, direct (signal name, lo, hi) reads / writes, helper calls"""
  def __init__(self, src):
    self.classes = {}
    for c in ast.parse(src).body:
      if not isinstance(c, ast.ClassDef): continue
      fns = {}
      for m in c.body:
        if isinstance(m, ast.FunctionDef) and m.name == 'construct':
          for f in m.body:
            if isinstance(f, ast.FunctionDef): fns[f.name] = f
      info = {}
      for name, f in fns.items():
        dec = ast.unparse(f.decorator_list[0]) if f.decorator_list else ''
        kind = {'s.func': 'func', 'update': 'update', 'update_once': 'update', 'update_ff': 'update_ff'}.get(dec)
        if kind is None: continue
        rd, wrt, calls = set(), set(), set()
        def visit(n):
          if isinstance(n, ast.Subscript) and self.is_sig(n.value) and isinstance(n.slice, ast.Slice):
            lo, hi = n.slice.lower.value, n.slice.upper.value
            (wrt if isinstance(n.ctx, ast.Store) else rd).add((n.value.attr, lo, hi)); return
          if self.is_sig(n):
            (wrt if isinstance(n.ctx, ast.Store) else rd).add((n.attr, 0, None)); return
          if isinstance(n, ast.Call) and isinstance(n.func, ast.Name) and n.func.id in fns: calls.add(n.func.id)
          for ch in ast.iter_child_nodes(n): visit(ch)
        for st in f.body: visit(st)
        info[name] = (kind, rd, wrt, calls)
      self.classes[c.name] = info
  @staticmethod
  def is_sig(n):
    return isinstance(n, ast.Attribute) and isinstance(n.value, ast.Name) and n.value.id == 's' and re.fullmatch(r'w\d+', n.attr)
  def closure(self, cls, blk):
    """helpers a block can execute: worklist with a visited set of its own"""
    info = self.classes[cls]
    seen, todo = [], sorted(info[blk][3])
    while todo:
      x = todo.pop()
      if x in seen: continue
      seen.append(x); todo += sorted(info[x][3])
    return seen
  def has_cycle(self, cls, blk):
    info = self.classes[cls]
    colour = {}
    def go(x):
      colour[x] = 1
      for y in sorted(info[x][3]):
        if colour.get(y) == 1 or (y not in colour and go(y)): return True
      colour[x] = 2
      return False
    return any((c not in colour and go(c)) for c in sorted(info[blk][3]))

def bits_of_mentions(m, mentions):
  out = set()
  for (name, lo, hi) in mentions:
    sig = getattr(m, name)
    for b in range(lo, NB if hi is None else hi): out.add((id(sig), b))
  return out

def bits_of_objs(objs):
  out = set()
  for o in objs:
    if not o.is_signal(): continue
    t = o.get_top_level_signal()
    if o is t: rng_ = range(0, t._dsl.Type.nbits)
    else:
      sl = o._dsl.slice
      if sl is None or o.get_parent_object() is not t: raise InfraError(f'unexpected object {o!r} in a generated design')
      rng_ = range(sl.start, sl.stop)
    for b in rng_: out.add((id(t), b))
  return out

# ---------------------------------------------------------------------------------------------
# reading the model input off the real design, before the expansion
# ---------------------------------------------------------------------------------------------
class Snapshot:
  def __init__(self): self.comps = []; self.flags = None
  def take(self, top):
    from pymtl3.dsl.ComponentLevel2 import ComponentLevel2
    from pymtl3.dsl.Connectable import Signal
    for m in top._collect_all_single(lambda x: isinstance(x, ComponentLevel2)):
      d = m._dsl
      self.comps.append(dict(
        m=m, name_func=dict(d.name_func), update_ff=set(d.update_ff),
        func_reads={f: set(v) for f, v in d.func_reads.items()}, func_writes={f: set(v) for f, v in d.func_writes.items()},
        func_calls={f: set(v) for f, v in d.func_calls.items()},
        upblk_reads={b: set(v) for b, v in d.upblk_reads.items()}, upblk_writes={b: set(v) for b, v in d.upblk_writes.items()},
        upblk_calls={b: set(v) for b, v in d.upblk_calls.items()}, blk_order=list(d.upblk_calls)))
    sigs = [x for x in top._collect_all_single(lambda x: isinstance(x, Signal))]
    self.flags = {id(x): (x, bool(x._dsl.needs_double_buffer)) for x in sigs}

def load(workdir, src, name):
  mod = f'pvcg_{os.getpid()}_{next(_uid)}'
  path = os.path.join(workdir, mod + '.py')
  with open(path, 'w') as f: f.write(src)
  spec = importlib.util.spec_from_file_location(mod, path); m = importlib.util.module_from_spec(spec)
  sys.modules[mod] = m; spec.loader.exec_module(m)
  return getattr(m, name)

def elaborate(cls):
  """the real elaborate() with a snapshot taken right before the dicts of top are declared and filled;
  returns (top, snapshot, exception or None)"""
  top = cls()
  snap = Snapshot()
  orig = top._elaborate_declare_vars
  def hook():
    snap.take(top); orig()
  top._elaborate_declare_vars = hook
  exc = None
  try: top.elaborate()
  except Exception as e: exc = e
  finally:
    del top._elaborate_declare_vars
  return top, snap, exc

def request(c):
  """one component -> driver line, object numbering"""
  objs = {}
  def note(o):
    objs.setdefault(id(o), o)
    if o.is_signal(): objs.setdefault(id(o.get_top_level_signal()), o.get_top_level_signal())
  for tab in ('func_reads', 'func_writes', 'upblk_reads', 'upblk_writes'):
    for v in c[tab].values():
      for o in v: note(o)
  reprs = sorted((repr(o), k) for k, o in objs.items())
  if len({r for r, _ in reprs}) != len(reprs): raise InfraError('two objects with one repr')
  oid = {k: i for i, (_, k) in enumerate(reprs)}
  tops = [oid[id(objs[k].get_top_level_signal())] if objs[k].is_signal() else i for i, (_, k) in enumerate(reprs)]
  funcs = [c['name_func'][n] for n in sorted(c['name_func'])]
  if set(funcs) != set(c['func_reads']): raise InfraError('func_reads keys differ from name_func')
  fid = {f: i for i, f in enumerate(funcs)}
  other = {}
  def callee(x):
    if x in fid: return fid[x]
    return other.setdefault(id(x), len(funcs) + len(other))
  S = lambda v: sorted(oid[id(o)] for o in v)
  C = lambda v: sorted(callee(x) for x in v)
  fl = [[S(c['func_reads'][f]), S(c['func_writes'][f]), C(c['func_calls'][f])] for f in funcs]
  blks = c['blk_order']
  bl = [[1 if b in c['update_ff'] else 0, S(c['upblk_reads'][b]), S(c['upblk_writes'][b]), C(c['upblk_calls'][b])] for b in blks]
  line = leanio.line('callgraph', 'expand', ['funcs'] + fl, ['blocks'] + bl, ['tops'] + tops)
  return line, oid, objs, blks, bool(other)

def check_design(ck, src, name, variant, lines, meta):
  from pymtl3.dsl.errors import InvalidFuncCallError, MultiWriterError
  case = {'callgraph': True, 'source': src, 'top': name, 'variant': variant}
  cls = load(ck.workdir, src, name)
  top, snap, exc = elaborate(cls)
  if snap.flags is None: raise InfraError(f'elaboration stopped before the snapshot: {exc!r}')
  walk = Walk(src)
  comps = snap.comps
  allblks = [b for c in comps for b in c['blk_order']]
  if len({id(b) for b in allblks}) != len(allblks): raise InfraError('block ids not distinct')
  # ---- direct oracle (d): call cycles
  cyc = [(type(c['m']).__name__, b.__name__) for c in comps if type(c['m']).__name__ in walk.classes
         for b in c['blk_order'] if walk.has_cycle(type(c['m']).__name__, b.__name__)]
  raised = isinstance(exc, InvalidFuncCallError)
  ffsigs = {}                              # filled below: signals an update_ff block writes, itself or through helpers (own walk)
  shared = False; deep = False
  for c in comps:
    cn = type(c['m']).__name__
    if cn not in walk.classes: continue
    cl = {b.__name__: walk.closure(cn, b.__name__) for b in c['blk_order']}
    deep = deep or any(set(v) - walk.classes[cn][b][3] for b, v in cl.items())
    allh = [h for v in cl.values() for h in v]
    shared = shared or len(allh) != len(set(allh))
  ck.count({'callgraph': hashlib.sha256(src.encode()).hexdigest()[:12], 'variant': variant}, deep or shared or bool(cyc))
  ck.hist('cg_variant', variant); ck.hist('cg_outcome', type(exc).__name__ if exc is not None else 'elaborated'); ck.hist('cg_components', len(comps)); ck.hist('cg_shared_helper', int(shared)); ck.hist('cg_nested_call', int(deep))
  if cyc and not raised:
    ck.violation('call-cycle-not-rejected', {'what': 'callgraph'}, case,
                 {'blocks_reaching_a_cycle': cyc, 'raised': repr(exc), 'oracle': 'a block that reaches a call cycle must raise InvalidFuncCallError'})
  if raised and not cyc:
    ck.disagreement('InvalidFuncCallError without a reachable call cycle in the source', case, 'n/a', str(exc)[:500])
  if exc is not None and not isinstance(exc, (InvalidFuncCallError, MultiWriterError)):
    raise InfraError(f'generated design rejected: {type(exc).__name__}: {str(exc)[:300]}')
  # ---- model side queued (per component)
  for c in comps:
    if not c['blk_order'] and not c['name_func']: continue
    line, oid, objs, blks, has_other = request(c)
    if has_other: ck.hist('cg_nonfunction_callee', 1)
    lines.append(line); meta.append((case, top, snap, c, oid, blks, raised, ffsigs))
  if raised: return
  if not hasattr(top._dsl, 'all_upblk_reads'): raise InfraError('no all_upblk_reads after elaboration')
  R, W = top._dsl.all_upblk_reads, top._dsl.all_upblk_writes
  # ---- direct oracle (a): static closure of the source
  orr, oww, info_of, direct, gotbits = {}, {}, {}, {}, {}
  for c in comps:
    m = c['m']; cn = type(m).__name__
    if cn not in walk.classes: continue
    info = walk.classes[cn]
    # (the simulation passes replace the signal attributes by values: resolve every mention now)
    for f in info: direct[(id(m), f)] = (None, bits_of_mentions(m, info[f][1]), bits_of_mentions(m, info[f][2]))
    for b in c['blk_order']:
      fns = [b.__name__] + walk.closure(cn, b.__name__)
      want_r = set().union(*[direct[(id(m), f)][1] for f in fns])
      want_w = set().union(*[direct[(id(m), f)][2] for f in fns])
      orr[b], oww[b] = want_r, want_w
      info_of[b] = (m, info, info[b.__name__][0] == 'update_ff')
      got_r, got_w = bits_of_objs(R.get(b, ())), bits_of_objs(W.get(b, ()))
      gotbits[b] = (None, got_r, got_w)
      if info_of[b][2]:
        for (i, _) in want_w: ffsigs.setdefault(i, f'{m!r}.{b.__name__}')
      for what, want, got in (('read', want_r, got_r), ('write', want_w, got_w)):
        miss = want - got
        if miss:
          ck.violation('expanded-set-misses-a-signal', {'what': what, 'via': 'source'}, case,
                       {'block': f'{m!r}.{b.__name__}', 'reachable_helpers': fns[1:], 'missing': sorted(describe(snap, miss)),
                        'oracle': f'every bit the block or a helper it can call {what}s (own walk over the source) is in all_upblk_{what}s[blk]'})
        elif got - want:
          ck.disagreement(f'all_upblk_{what}s has bits nothing in the source {what}s', case, sorted(describe(snap, want)), sorted(describe(snap, got)))
  if exc is not None: return              # MultiWriterError: raised after the expansion, nothing to schedule
  # ---- direct oracle (c): GenDAG edges
  from pymtl3.passes.sim.GenDAGPass import GenDAGPass
  from pymtl3.passes.PassGroups import DefaultPassGroup
  simulate = variant in ('dag', 'cyc-unreached')
  if simulate:
    try:
      top.apply(DefaultPassGroup()); top.sim_reset()
    except Exception as e:
      raise InfraError(f'generated design does not simulate: {type(e).__name__}: {str(e)[:300]}')
  else:
    top.apply(GenDAGPass())
  cons = set(top._dag.all_constraints)
  for w in allblks:
    if w not in oww or info_of[w][2]: continue
    for r in allblks:
      if r is w or r not in orr: continue
      common = oww[w] & orr[r]
      if common and (w, r) not in cons:
        ck.violation('missing-dependency-edge', {'what': 'callgraph'}, case,
                     {'writer': w.__name__, 'reader': r.__name__, 'shared_bits': sorted(describe(snap, common))[:6],
                      'oracle': 'a block writing (itself or through helpers) a bit another block reads (itself or through helpers) is constrained before it'})
  # ---- direct oracle (b): what really runs
  if simulate:
    for c in comps:
      m = c['m']; cn = type(m).__name__
      if cn not in walk.classes: continue
      info = walk.classes[cn]
      code = {f.__code__: n for n, f in c['name_func'].items()}
      for b in c['blk_order']:
        ran = []
        def prof(frame, ev, arg):
          if ev == 'call' and frame.f_code in code: ran.append(code[frame.f_code])
        sys.setprofile(prof)
        try: b()
        finally: sys.setprofile(None)
        ck.hist('cg_helpers_run', min(len(set(ran)), 6))
        for h in sorted(set(ran)):
          for what, k in (('read', 1), ('write', 2)):
            miss = direct[(id(m), h)][k] - gotbits[b][k]
            if miss:
              ck.violation('expanded-set-misses-a-signal', {'what': what, 'via': 'run'}, case,
                           {'block': f'{m!r}.{b.__name__}', 'helper_executed': h, 'missing': sorted(describe(snap, miss)),
                            'oracle': f'a helper that executes when the block runs {what}s only bits of all_upblk_{what}s[blk]'})

def describe(snap, bits):
  return [f'{snap.flags[i][0]!r}[{b}]' if i in snap.flags else f'?[{b}]' for (i, b) in bits]

def compare(ck, rep, m):
  case, top, snap, c, oid, blks, raised, _ = m
  r = leanio.parse_sexp(rep)
  if r[0] != 'blocks' or r[2] != 'marks' or r[4] != 'collect': raise InfraError(f'unexpected reply {rep[:200]}')
  per_blk, marks, coll = r[1], r[3], r[5:]
  model_cycle = any(x == 'cycle' for x in per_blk)
  if (coll == ['cycle']) != model_cycle:
    ck.disagreement('Model collect vs expand (error)', case, rep[:500], 'n/a'); return 'bad'
  if model_cycle or raised:
    return 'cycle' if model_cycle else 'ok'
  R, W = top._dsl.all_upblk_reads, top._dsl.all_upblk_writes
  S = lambda v: sorted(oid.get(id(o), -1) for o in v)
  for i, b in enumerate(blks):
    mr, mw = [int(x) for x in per_blk[i][0]], [int(x) for x in per_blk[i][1]]
    cr, cw = [int(x) for x in coll[0][i][0]], [int(x) for x in coll[0][i][1]]
    rr, rw = S(R.get(b, ())), S(W.get(b, ()))
    if (mr, mw) != (cr, cw):
      ck.disagreement('Model collect vs expand', case, rep[:500], 'n/a')
    if (mr, mw) != (rr, rw):
      names = {i: r for r, i in ((repr(o), oid[id(o)]) for o in [x for tab in ('func_reads', 'func_writes', 'upblk_reads', 'upblk_writes') for v in c[tab].values() for x in v])}
      ck.disagreement('CallGraph.expand≈_collect_vars (all_upblk_reads / all_upblk_writes)', case,
                      {'block': b.__name__, 'reads': [names.get(x, x) for x in mr], 'writes': [names.get(x, x) for x in mw]},
                      {'block': b.__name__, 'reads': sorted(repr(o) for o in R.get(b, ())), 'writes': sorted(repr(o) for o in W.get(b, ()))})
  return ('ok', {int(x) for x in marks}, {int(x) for x in coll[1]})

def finish_design(ck, group):
  """needs_double_buffer over the whole design: flags before the expansion + the model's marks of every component"""
  case, top, snap = group[0][0][0], group[0][0][1], group[0][0][2]
  if any(res in ('bad',) for _, res in group): return
  model_cycle = any(res == 'cycle' for _, res in group)
  raised = group[0][0][6]
  if model_cycle != raised:
    ck.disagreement('CallGraph.expand≈_collect_vars (InvalidFuncCallError)', case, 'cycle' if model_cycle else 'no cycle', 'raised' if raised else 'not raised')
    return
  if raised: return
  want = {i for i, (x, f) in snap.flags.items() if f}
  for m, res in group:
    oid = m[4]; inv = {v: k for k, v in oid.items()}
    if res[1] != res[2]: ck.disagreement('Model collect vs expand (marks)', case, sorted(res[1]), sorted(res[2]))
    want |= {inv[x] for x in res[1]}
  got = {i for i, (x, f) in snap.flags.items() if x._dsl.needs_double_buffer}
  # direct oracle for the marks (own walk over the source): every signal an update_ff block writes, itself or through
  # helpers, is double-buffered
  for i, blk in sorted(group[0][0][7].items(), key=lambda kv: kv[1]):
    if i in snap.flags and not snap.flags[i][0]._dsl.needs_double_buffer:
      ck.violation('ff-written-signal-not-double-buffered', {'what': 'callgraph'}, case,
                   {'block': blk, 'signal': repr(snap.flags[i][0]), 'oracle': 'a signal written with <<= (in the block or in a helper it calls) takes its value at the edge'})
  if want != got:
    ck.disagreement('CallGraph marks≈needs_double_buffer', case, sorted(repr(snap.flags[i][0]) for i in want), sorted(repr(snap.flags[i][0]) for i in got))

def run_batch(ck, designs, chunk=100):
  """designs are checked and compared chunk by chunk (the elaborated tops are kept until their replies are in)"""
  for at in range(0, len(designs), chunk):
    lines, meta = [], []
    before = set(sys.modules)
    for (src, name, variant) in designs[at:at + chunk]:
      check_design(ck, src, name, variant, lines, meta)
    reps = ck.drv('callgraph').batch(lines)
    groups = {}
    for rep, m in zip(reps, meta):
      groups.setdefault(id(m[1]), []).append((m, compare(ck, rep, m)))
    for g in groups.values(): finish_design(ck, g)
    for k in set(sys.modules) - before:
      if k.startswith('pvcg_'): del sys.modules[k]
  return len(designs)

CYC_SRC = '''from pymtl3 import *

class CGC_Top( Component ):
  def construct( s ):
    s.w0 = Wire( Bits8 ); s.w1 = Wire( Bits8 ); s.w2 = Wire( Bits8 )
    @update
    def up0():
      s.w1 @= s.w0
    @s.func
    def fx():
      return s.w0 + fy()
    @s.func
    def fy():
      return s.w1 + fz()
    @s.func
    def fz():
      return s.w2 + fy()
    @update
    def up1():
      s.w2 @= %s
'''

FFS_SRC = '''from pymtl3 import *

class CGF_Top( Component ):
  def construct( s ):
    s.w0 = Wire( Bits8 ); s.w1 = Wire( Bits8 ); s.w2 = Wire( Bits8 ); s.w3 = Wire( Bits8 )
    @s.func
    def lo():
      s.w1 <<= s.w0
      hi()
    @s.func
    def hi():
      s.w2 <<= s.w0
    @update_ff
    def up0():
      lo()
    @update
    def up1():
      s.w3 @= s.w1 + s.w2
'''

DIRECTED = [
  (FFS_SRC, 'CGF_Top', 'ffslice'),                      # registers written through nested helpers of an update_ff block
  (CYC_SRC % 'fx()', 'CGC_Top', 'cyc'),                 # up1 -> fx -> fy <-> fz: rejected
  (CYC_SRC % 's.w1 + 1', 'CGC_Top', 'cyc-unreached'),   # the same cycle, reached by no block: accepted
  # the diamond of the code's comment, the helper shared by three blocks defined around it, a child with the same shape twice
  ('''from pymtl3 import *

class CGD_K( Component ):
  def construct( s ):
    s.w0 = Wire( Bits8 ); s.w1 = Wire( Bits8 ); s.w2 = Wire( Bits8 ); s.w3 = Wire( Bits8 )
    @update
    def up0():
      s.w2 @= fx()
    @s.func
    def fx():
      return s.w0 + fy()
    @s.func
    def fy():
      return s.w1
    @update
    def up1():
      s.w3 @= fx() + 1

class CGD_Top( Component ):
  def construct( s ):
    s.w0 = Wire( Bits8 ); s.w1 = Wire( Bits8 ); s.w2 = Wire( Bits8 ); s.w3 = Wire( Bits8 )
    s.w4 = Wire( Bits8 ); s.w5 = Wire( Bits8 ); s.w6 = Wire( Bits8 ); s.w7 = Wire( Bits8 )
    s.k0 = CGD_K()
    s.k1 = CGD_K()
    @update
    def upA():
      s.w4 @= fx()
    @s.func
    def fw():
      return s.w3
    @s.func
    def fx():
      return fy() + fz()
    @update
    def upB():
      s.w5 @= fz() + s.w4
    @s.func
    def fy():
      return s.w1 + fw()
    @s.func
    def fz():
      return s.w2 + fw()
    @update_ff
    def upC():
      s.w6 <<= fw() + s.w5
      fr()
    @s.func
    def fr():
      s.w7 <<= s.w7 + fw()
''', 'CGD_Top', 'dag'),
]

def run(ck):
  # a stream of its own, derived from the run's seed: the designs do not depend on where c02.run calls this module and
  # the other streams of C02 do not move (ck.count may still draw from ck.rng for the evidence samples)
  import random
  rng = random.Random(f'{ck.seed}:{getattr(ck, "pid", "C02")}:callgraph:{ck.tier}')
  n = 240 if ck.tier == 'quick' else 1000
  designs = list(DIRECTED)
  for _ in range(n):
    src, name, variant = gen_design(rng, next(_uid))
    designs.append((src, name, variant))
  ck.extra_cov.setdefault('sample_callgraph_source', designs[1][0])
  ck.extra_cov['callgraph_designs'] = run_batch(ck, designs)

def replay(ck, data):
  case = data if 'source' in data else (data.get('case') or {})
  src = case.get('source')
  if not src: return None
  name = case.get('top') or re.findall(r'class (\w+)\(', src)[-1]
  print(src)
  run_batch(ck, [(src, name, case.get('variant', 'dag'))])
  for v in ck.violations: print('VIOLATION', v.kind, v.signature, str(v.detail)[:1500])
  for b in ck.breaks: print('DISAGREEMENT', b['correspondence'], '\n  model:', str(b['model'])[:800], '\n  impl: ', str(b['impl'])[:800])
  return 1 if (ck.violations or ck.breaks) else 0
