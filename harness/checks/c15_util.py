"""C15 helpers: random component hierarchies (JSON-able specs), rendering as PyMTL source and as the
S-expression `Driver/Meta.lean` understands, by-name observation of the real top-level metadata and the
search for anything of a removed component that is still reachable.

A spec (dict) describes ONE component by what its own `construct` declares:
  uid, nin, nout, k            class id, ports in0.. / out0.. (Bits8), constructor argument
  oparam                       the parent configures the child object before attaching it: u = C( k=k ); u.set_param( "top.construct", k=oparam ); s.c0 = u
  kconst                       the component publishes k (s.kc //= k) and has k % 3 extra wires / constants / nets s.kw[i]
  wires                        names of Wire(Bits8)
  mport                        True: `@method_port def ping(s)` (a callee port) that bumps the counter `s.cnt`; a block with
                               'pub' publishes `s.cnt` (only the block that an M constraint orders against `ping`, so the
                               schedule — and the trace — is determined)
  blk 'mcalls'                 refs of method ports the block calls: `s.<slot>.ping()` (parent update_once calling the child)
  caller                       [slot] or None: `s.cp = CallerPort(); connect(s.cp, s.<slot>.ping)`
  items                        ordered: {'t':'blk', name, kind comb|ff|once, reads, writes, op, func}
                                        {'t':'kid', slot, spec}        slot = 'c0' or list element 'd0[1]'
  conns, consts                [[ref, ref]], [[ref, int]] in connect order
  uu, rdu, wru, mcs            explicit constraints on own blocks
  rdux, wrux, mcx              like rdu / wru / mcs with the block given as a ref into a child: RD(s.c0.out0) < U( s.c1.get_update_block("b0") )
  uux                          [[ref, ref]] U(x) < U(y) between blocks of children: U( s.c0.get_update_block("b0") ) < ...
  (a 'structural' component has no update block of its own: children, connections, constants and uux only)
ref = [[relhost...], name]: [[], 'w0'] = s.w0, [['c0'], 'out0'] = s.c0.out0.
Items are in dataflow order (a block / child only consumes what earlier items or the own input ports
produce), which keeps every generated design free of combinational loops and makes every explicit
constraint that points forward in this order consistent with the schedule.
"""
import importlib.util, itertools, os, re, sys

_modctr = itertools.count()
_loaded = []

def unload():
  """forget the generated modules (and so their classes): pymtl3 assigns `NamedObject.__setattr__` during every
  elaboration, which costs time proportional to the number of live NamedObject subclasses"""
  import gc, linecache
  for modname, path in _loaded:
    sys.modules.pop(modname, None)
    linecache.cache.pop(path, None)
    try: os.remove(path)
    except OSError: pass
  del _loaded[:]
  gc.collect()

# --------------------------------------------------------------------------------------------- generation

class Gen:
  def __init__(self, rng, uid0=0):
    self.rng = rng
    self.uid = uid0
    self.feat = {}

  def new_uid(self):
    self.uid += 1
    return self.uid

  def spec(self, nin, nout, depth, k=None, feat=None, mport=None, rin=False):
    rng = self.rng
    feat = feat or self.feat
    s = {'uid': self.new_uid(), 'ph': False, 'nin': nin, 'nout': nout, 'k': rng.randint(0, 9) if k is None else k,
         'wires': [], 'mport': (rng.random() < feat.get('mport', 0.2)) if mport is None else mport, 'caller': None, 'items': [],
         'conns': [], 'consts': [], 'uu': [], 'rdu': [], 'wru': [], 'mcs': [], 'rin': rin}
    avail = [[[], f'in{i}'] for i in range(nin)]
    nblk = rng.randint(0, 3)
    nkid = 0 if depth <= 0 else rng.choice([0, 1, 1, 2, 2, 3])
    structural = depth > 0 and rng.random() < feat.get('structural', 0.2)
    if structural: nblk, nkid = 0, rng.choice([2, 2, 3])
    plan = ['blk'] * nblk + ['kid'] * nkid
    rng.shuffle(plan)
    nb = [0]; nk = [0]; nl = [0]

    def new_wire():
      w = f'w{len(s["wires"])}'
      s['wires'].append(w)
      return [[], w]

    def new_blk(kind, writes, nreads=None):
      reads = rng.sample(avail, min(len(avail), rng.randint(0, 3) if nreads is None else nreads)) if avail else []
      b = {'t': 'blk', 'name': f'b{nb[0]}', 'kind': kind, 'reads': reads, 'writes': writes,
           'op': rng.choice(['+', '^', '|', '&']), 'func': kind == 'comb' and rng.random() < feat.get('func', 0.2)}
      nb[0] += 1
      s['items'].append(b)
      return b

    def connect(a, b):
      s['conns'].append([a, b] if rng.random() < 0.5 else [b, a])

    def add_kid(slot):
      cin, cout = rng.randint(1, 2), rng.randint(1, 2)
      has_rin = rng.random() < feat.get('rin', 0.35)
      if rng.random() < feat.get('ph', 0.12): sub = self.placeholder(cin, cout, has_rin)
      else: sub = self.spec(cin, cout, depth - 1, feat=feat, rin=has_rin)
      if not sub.get('ph') and rng.random() < feat.get('oparam', 0.25):
        sub['oparam'] = rng.randint(20, 29); sub['kconst'] = True
      if has_rin:
        # an ordinary 1-bit input of the child (sync clear) tied by the parent to its own reset / clk / clear input
        r = rng.random()
        port = [[slot], 'rin']
        if r < 0.6: connect(port, [[], 'reset'])
        elif r < 0.75: connect(port, [[], 'clk'])
        elif r < 0.9: connect(port, [[], 'rin' if s['rin'] else 'reset'])
        else: s['consts'].append([port, rng.randint(0, 1)])
      for i in range(cin):
        port = [[slot], f'in{i}']
        r = rng.random()
        if structural:
          if r < 0.75 and avail: connect(port, rng.choice(avail))
          else: s['consts'].append([port, rng.randint(0, 255)])
        elif rng.random() < feat.get('ffkid', 0.0): new_blk('ff', [port])
        elif r < 0.5 and avail: connect(port, rng.choice(avail))
        elif r < 0.65: s['consts'].append([port, rng.randint(0, 255)])
        else: new_blk('comb', [port])
      s['items'].append({'t': 'kid', 'slot': slot, 'spec': sub})
      for i in range(cout): avail.append([[slot], f'out{i}'])
      if sub['mport'] and not structural:
        r = rng.random()
        if r < feat.get('mcall', 0.45):
          # the parent calls the child's method port directly
          b = new_blk('once', [], nreads=0)
          b['mcalls'] = [[[slot], 'ping']]
        elif r < 0.85 and not s['caller']:
          # ... or through an own CallerPort connected to it (a method net inside this component)
          s['caller'] = [slot]
          b = new_blk('once', [], nreads=0)
          b['calls_cp'] = True

    i = 0
    while i < len(plan):
      what = plan[i]; i += 1
      if what == 'kid':
        if i < len(plan) and plan[i] == 'kid' and rng.random() < 0.5:
          i += 1
          ln = f'd{nl[0]}'; nl[0] += 1
          r = rng.random()
          if r < 0.6: a, b = '[0]', '[1]'              # s.d0 = [ A, B ]
          elif r < 0.8: a, b = '[0][0]', '[0][1]'      # s.d0 = [ [ A, B ] ]
          else: a, b = '[0][0]', '[1][0]'              # s.d0 = [ [ A ], [ B ] ]
          add_kid(ln + a); add_kid(ln + b)
        else:
          add_kid(f'c{nk[0]}'); nk[0] += 1
      else:
        r = rng.random()
        if r < 0.15 and avail:
          w = new_wire(); connect(w, rng.choice(avail)); avail.append(w)
        elif r < 0.25:
          w = new_wire(); s['consts'].append([w, rng.randint(0, 255)]); avail.append(w)
        else:
          kind = 'comb' if r < 0.65 else ('ff' if r < 0.9 else 'once')
          ws = [new_wire() for _ in range(rng.randint(1, 2))]
          new_blk(kind, ws)
          avail.extend(ws)
    for o in range(nout):
      port = [[], f'out{o}']
      r = rng.random()
      if structural: r = r * 0.6 if avail else 0.55
      if r < 0.5 and avail: connect(port, rng.choice(avail))
      elif r < 0.6: s['consts'].append([port, rng.randint(0, 255)])
      elif r < 0.85: new_blk('comb', [port])
      elif r < 0.97: new_blk('ff', [port])
      else: new_blk('once', [port])
    # U(x) < U(y) between blocks of two children, forward in item order (consistent with the dataflow order)
    ks = [(it['slot'], [b['name'] for b in it['spec']['items'] if b['t'] == 'blk' and b['kind'] != 'ff'
                        and not b.get('mcalls') and not b.get('calls_cp')]) for it in s['items'] if it['t'] == 'kid']
    ks = [(slot, bs) for slot, bs in ks if bs]
    s['uux'] = []
    if len(ks) >= 2 and rng.random() < (0.9 if structural else feat.get('uux', 0.25)):
      for _ in range(rng.randint(1, 2)):
        i, j = sorted(rng.sample(range(len(ks)), 2))
        c = [[[ks[i][0]], rng.choice(ks[i][1])], [[ks[j][0]], rng.choice(ks[j][1])]]
        if c not in s['uux']: s['uux'].append(c)
    s['rdux'], s['wrux'], s['mcx'] = [], [], []
    if structural and len(ks) >= 2:
      kd = {it['slot']: it['spec'] for it in s['items'] if it['t'] == 'kid'}
      for key in ('rdux', 'wrux'):
        if rng.random() < 0.5:
          i, j = sorted(rng.sample(range(len(ks)), 2))
          fwd = rng.random() < 0.5          # RD/WR(earlier child's output) < U(later child's block), or U(earlier block) < RD/WR(later output)
          var, blk = (ks[i][0], ks[j]) if fwd else (ks[j][0], ks[i])
          s[key].append([[[var], f'out{rng.randrange(kd[var]["nout"])}'], fwd, [[blk[0]], rng.choice(blk[1])]])
      mp = [slot for slot, _ in ks if kd[slot]['mport']]
      if mp and rng.random() < 0.7:
        m = rng.choice(mp)
        o = rng.choice([x for x in ks if x[0] != m])
        pair = [['m', [[m], 'ping']], ['u', [[o[0]], rng.choice(o[1])]]]
        s['mcx'].append((pair if rng.random() < 0.5 else pair[::-1]) + [False])
    if s['rin']:
      bl = [it for it in s['items'] if it['t'] == 'blk' and it['writes']]
      ffs = [it for it in bl if it['kind'] == 'ff']
      if bl: rng.choice(ffs or bl)['rin'] = True       # this block clears what it writes while s.rin is high
    self.constraints(s, feat)
    return s

  def placeholder(self, nin, nout, rin=False):
    return {'rin': rin, 'uid': self.new_uid(), 'ph': True, 'nin': nin, 'nout': nout, 'k': self.rng.randint(0, 9), 'wires': [],
            'mport': False, 'caller': None, 'items': [], 'conns': [], 'consts': [], 'uu': [], 'rdu': [], 'wru': [], 'mcs': []}

  def constraints(self, s, feat):
    rng = self.rng
    blks = [(i, it) for i, it in enumerate(s['items']) if it['t'] == 'blk']
    sched = [(i, b) for i, b in blks if b['kind'] != 'ff' and not b.get('mcalls') and not b.get('calls_cp')]   # the calling block is ordered by M only
    pcons = feat.get('cons', 0.5)
    # U(a) < U(b), forward in item order
    for (i, a), (j, b) in itertools.combinations(sched, 2):
      if rng.random() < pcons * 0.4: s['uu'].append([a['name'], b['name']])
    def key(r): return (tuple(r[0]), r[1])
    own_wires = {((), w) for w in s['wires']}
    for w in sorted(own_wires):
      wr = [i for i, b in blks if any(key(x) == w for x in b['writes'])]
      rd = [i for i, b in blks if any(key(x) == w for x in b['reads'])]
      ref = [[], w[1]]
      if not wr or dict(blks)[wr[0]]['kind'] == 'ff' or any(dict(blks)[i]['kind'] == 'ff' for i in rd): continue
      last = max(rd + wr)
      for j, b in sched:
        if j > wr[0] and rng.random() < pcons * 0.3: s['wru'].append([ref, True, b['name']])     # WR(w) < U(b)
        if j < wr[0] and rng.random() < pcons * 0.3: s['wru'].append([ref, False, b['name']])    # WR(w) > U(b)
        # readers of w are its reading blocks and the generated net blocks, all downstream of the writer
        if j > last and rng.random() < pcons * 0.3: s['rdu'].append([ref, True, b['name']])      # RD(w) < U(b)
        if j <= wr[0] and rng.random() < pcons * 0.3: s['rdu'].append([ref, False, b['name']])   # RD(w) > U(b)
    if s['mport'] and sched:
      _, b = rng.choice(sched)
      if rng.random() < feat.get('mcons', 0.7):
        if rng.random() < 0.6: s['mcs'].append([['m', [[], 'ping']], ['u', b['name']], False])
        else: s['mcs'].append([['u', b['name']], ['m', [[], 'ping']], False])
        if b['writes']: b['pub'] = True

def kids(spec):
  return [(it['slot'], it['spec']) for it in spec['items'] if it['t'] == 'kid']

def paths(spec, pre=()):
  """paths (token tuples) of all components below the top"""
  out = []
  for slot, sub in kids(spec):
    out.append(pre + (slot,))
    out += paths(sub, pre + (slot,))
  return out

def sub(spec, path):
  for tok in path:
    spec = dict(kids(spec))[tok]
  return spec

def subst(spec, path, new):
  """the spec tree with the component at `path` replaced by `new` (fresh copy of the spine)"""
  if not path: return new
  out = dict(spec)
  out['items'] = [dict(it, spec=subst(it['spec'], path[1:], new)) if it['t'] == 'kid' and it['slot'] == path[0] else it
                  for it in spec['items']]
  return out

def placeholders(spec, pre=()):
  out = []
  for slot, s in kids(spec):
    if s.get('ph'): out.append(pre + (slot,))
    out += placeholders(s, pre + (slot,))
  return out

def size(spec):
  return 1 + sum(size(s) for _, s in kids(spec))

def depth(spec):
  return 1 + max([depth(s) for _, s in kids(spec)], default=0)

# --------------------------------------------------------------------------------------------- PyMTL source

def pyref(r):
  return 's.' + '.'.join(list(r[0]) + [r[1]])

def cname(spec, sfx):
  return f'C{spec["uid"]}{sfx}'

def class_source(spec, sfx, out):
  for _, subspec in kids(spec): class_source(subspec, sfx, out)
  L = [f'class {cname(spec, sfx)}( {"Placeholder, " if spec.get("ph") else ""}Component ):', '  def construct( s, k=1 ):']
  if spec['mport'] or spec.get('nbifc'): L.append('    s.cnt = 0')
  for i in range(spec['nin']): L.append(f'    s.in{i} = InPort( Bits8 )')
  if spec.get('rin'): L.append('    s.rin = InPort( Bits1 )')
  for i in range(spec['nout']): L.append(f'    s.out{i} = OutPort( Bits8 )')
  for w in spec['wires']: L.append(f'    s.{w} = Wire( Bits8 )')
  if spec.get('kconst'):
    # k is published as a constant, and changes the structure: k % 3 more wires, constants and nets
    L += ['    s.kc = Wire( Bits8 )', '    s.kc //= k', '    s.kw = [ Wire( Bits8 ) for _ in range( k % 3 ) ]',
          '    for i in range( k % 3 ): s.kw[i] //= i + 1']
  lists = {}
  for slot, subspec in kids(spec):
    m = re.fullmatch(r'(\w+)((?:\[\d+\])+)', slot)
    inst = f'{cname(subspec, sfx)}( k={subspec["k"]} )'     # keyword: set_param merges into the keyword arguments
    if subspec.get('oparam') is not None:
      # the parent configures the child OBJECT before it attaches it
      var = 'u_' + re.sub(r'\W', '_', slot)
      L += [f'    {var} = {inst}', f'    {var}.set_param( "top.construct", k={subspec["oparam"]} )']
      inst = var
    if m: lists.setdefault(m.group(1), {})[tuple(int(x) for x in re.findall(r'\d+', m.group(2)))] = inst
    else: L.append(f'    s.{slot} = {inst}')
  def nested(d, pre=()):
    if pre in d: return d[pre]
    n = 1 + max(k[len(pre)] for k in d if k[:len(pre)] == pre)
    return '[ ' + ', '.join(nested(d, pre + (i,)) for i in range(n)) + ' ]'
  for ln, d in lists.items(): L.append(f'    s.{ln} = {nested(d)}')
  if spec.get('caller'):
    L.append('    s.cp = CallerPort()')
    L.append(f'    connect( s.cp, s.{spec["caller"][0]}.ping )')
  for a, b in spec['conns']: L.append(f'    connect( {pyref(a)}, {pyref(b)} )')
  for a, v in spec['consts']: L.append(f'    {pyref(a)} //= {v}')
  for raw in spec.get('raw', []): L.append('    ' + raw)
  for it in spec['items']:
    if it['t'] != 'blk': continue
    asg = '<<=' if it['kind'] == 'ff' else '@='
    body = []
    for n, w in enumerate(it['writes']):
      terms = [pyref(r) for r in it['reads']] + [f'(k + {n})'] + (['Bits8( s.cnt )'] if it.get('pub') else [])
      line = f'{pyref(w)} {asg} ' + f' {it["op"]} '.join(terms)
      body += [f'if s.rin: {pyref(w)} {asg} 0', f'else: {line}'] if it.get('rin') else [line]
    if it.get('body'): body = list(it['body'])
    if it.get('calls_cp'): body.append('s.cp()')
    for r in it.get('mcalls', []): body.append(pyref(r) + '()')
    if not body: body.append('pass')
    if it['func']:
      L.append('    @s.func')
      L.append(f'    def f_{it["name"]}():')
      L += ['      ' + x for x in body]
      body = [f'f_{it["name"]}()']
    L.append('    @' + {'comb': 'update', 'ff': 'update_ff', 'once': 'update_once'}[it['kind']])
    L.append(f'    def {it["name"]}():')
    L += ['      ' + x for x in body]
  cons = []
  for a, b in spec['uu']: cons.append(f'U({a}) < U({b})')
  def ublk(r): return 's.' + '.'.join(r[0]) + f'.get_update_block("{r[1]}")'
  for a, b in spec.get('uux', []): cons.append(f'U( {ublk(a)} ) < U( {ublk(b)} )')
  for tag, lst in (('RD', spec['rdu']), ('WR', spec['wru'])):
    for r, lt, b in lst: cons.append(f'{tag}({pyref(r)}) {"<" if lt else ">"} U({b})')
  def mref(x): return f'U({x[1]})' if x[0] == 'u' else f'M({pyref(x[1])})'
  for x, y, eq in spec['mcs']: cons.append(f'{mref(x)} {"==" if eq else "<"} {mref(y)}')
  # constraints of a (structural) component on signals / methods / blocks of its children
  for tag in ('RD', 'WR'):
    for r, lt, b in spec.get(tag.lower() + 'ux', []): cons.append(f'{tag}({pyref(r)}) {"<" if lt else ">"} U( {ublk(b)} )')
  def mxref(x): return f'U( {ublk(x[1])} )' if x[0] == 'u' else f'M({pyref(x[1])})'
  for x, y, eq in spec.get('mcx', []): cons.append(f'{mxref(x)} {"==" if eq else "<"} {mxref(y)}')
  if cons:
    L.append('    s.add_constraints(')
    L += [f'      {c},' for c in cons]
    L.append('    )')
  for raw in spec.get('raw_end', []): L.append('    ' + raw)
  if spec.get('nbifc'):
    L += ['  @non_blocking( lambda s: True )', '  def enq( s, x ):', '    s.cnt = ( s.cnt + x ) & 255']
  if spec['mport']:
    L += ['  @method_port', '  def ping( s ):', f'    s.cnt = ( s.cnt + {1 + spec["uid"] % 3} ) & 255']
  out.append('\n'.join(L))

def module_source(spec, sfx):
  out = []
  class_source(spec, sfx, out)
  return 'from pymtl3 import *\nfrom pymtl3.dsl import *\n\n' + '\n\n'.join(out) + '\n'

def load(workdir, spec, tag):
  """write the classes of the spec tree to a fresh module file and return the class of its root"""
  n = next(_modctr)
  sfx = f'_{tag}{n}'
  modname = f'pvc15_{os.getpid()}_{n}'
  path = os.path.join(workdir, modname + '.py')
  with open(path, 'w') as f: f.write(module_source(spec, sfx))
  sp = importlib.util.spec_from_file_location(modname, path)
  mod = importlib.util.module_from_spec(sp)
  sys.modules[modname] = mod
  _loaded.append((modname, path))
  sp.loader.exec_module(mod)
  return getattr(mod, cname(spec, sfx))

# --------------------------------------------------------------------------------------------- model side

def param_matches(param, path):
  """does `top.set_param('top.<a>.<b>.construct', ...)` reach the component at `path`? pymtl3 compares every name for
  equality, or — when the pattern contains `*` — with re.match (NamedObject.__setattr_for_elaborate__)"""
  toks = param.split('.')[1:-1]
  return len(toks) == len(path) and all(a == b or ('*' in a and re.compile(a).match(b) is not None) for a, b in zip(toks, path))

def eff_k(spec, path, params):
  """value of the construct argument `k` the component at `path` ends up with"""
  ks = [v for p, v in params if param_matches(p, path)]
  if ks: return ks[-1]                       # a path-based set_param of an ancestor is merged over the object's own
  return spec['oparam'] if spec.get('oparam') is not None else spec['k']

def hier(spec, pre=(), params=(), base=()):
  """[(path, comp)] for the driver: sigs mports blks uu rdu wru mcs conns consts"""
  ke = eff_k(spec, tuple(base) + tuple(pre), params)
  sigs = [['clk', 'in'], ['reset', 'in']] + ([['rin', 'in']] if spec.get('rin') else []) + [[f'in{i}', 'in'] for i in range(spec['nin'])] + \
         [[f'out{i}', 'out'] for i in range(spec['nout'])] + [[w, 'wire'] for w in spec['wires']] + \
         ([['kc', 'wire']] + [[f'kw[{i}]', 'wire'] for i in range(ke % 3)] if spec.get('kconst') else [])
  mports = ([['ping', 'callee']] if spec['mport'] else []) + ([['cp', 'caller']] if spec.get('caller') else [])
  blks = []
  for it in spec['items']:
    if it['t'] != 'blk': continue
    calls = ([[[], 'f_' + it['name']]] if it['func'] else []) + ([[[], 'cp']] if it.get('calls_cp') else []) + \
            it.get('mcalls', [])
    blks.append([it['name'], {'comb': 0, 'ff': 1, 'once': 2}[it['kind']], it['reads'] + ([[[], 'rin']] if it.get('rin') else []),
                 it['writes'], calls])
  conns = list(spec['conns'])
  for slot, _ in kids(spec):
    conns.append([[[slot], 'clk'], [[], 'clk']])
    conns.append([[[slot], 'reset'], [[], 'reset']])
  if spec.get('caller'): conns.append([[[], 'cp'], [[spec['caller'][0]], 'ping']])
  uu = [[[[], a], [[], b]] for a, b in spec['uu']] + spec.get('uux', [])
  own = lambda lst: [[r, lt, [[], b]] for r, lt, b in lst]
  mown = lambda x: ['u', [[], x[1]]] if x[0] == 'u' else x
  comp = [bool(spec.get('ph')), sigs, mports, blks, uu, own(spec['rdu']) + spec.get('rdux', []), own(spec['wru']) + spec.get('wrux', []),
          [[mown(x), mown(y), eq] for x, y, eq in spec['mcs']] + spec.get('mcx', []), conns,
          [[a, str(v)] for a, v in spec['consts']] + ([[[[], 'kc'], str(ke)]] + [[[[], f'kw[{i}]'], str(i + 1)] for i in range(ke % 3)] if spec.get('kconst') else [])]
  out = [[list(pre), comp]]
  for slot, subspec in kids(spec): out += hier(subspec, pre + (slot,), params, base)
  return out

FIELDS = ('comp', 'sig', 'mport', 'blk', 'ff', 'once', 'read', 'write', 'call', 'uu', 'rdu', 'wru', 'mc', 'edge',
          'net', 'mnet', 'dbuf', 'lvl', 'obj')
MODEL_SKIP = ('obj',)      # per-object details of everything (slices, interfaces too): direct oracle only

def split_fields(entries):
  """rendered entries -> {field: sorted list}"""
  out = {f: [] for f in FIELDS}
  for e in entries:
    out[e[1:e.index(' ')]].append(e)
  return {f: sorted(set(v)) for f, v in out.items()}

def parse_dump(tree):
  """parsed S-expression (nested lists) of a driver dump -> {field: sorted rendered entries}"""
  from ..common import leanio
  return split_fields([leanio.sexp(x) for x in tree])

# --------------------------------------------------------------------------------------------- real side

def get_obj(top, path):
  o = top
  for tok in path:
    m = re.fullmatch(r'(\w+)((?:\[\d+\])+)', tok)
    if m:
      o = getattr(o, m.group(1))
      for i in re.findall(r'\d+', m.group(2)): o = o[int(i)]
    else: o = getattr(o, tok)
  return o

def observe(top):
  """by-name rendering of every queryable whole-design container, in the driver's dump format"""
  import types
  from pymtl3.dsl import CalleePort, CallerPort, Const, InPort, MethodPort, OutPort, Signal, Wire
  host = top._dsl.all_upblk_hostobj
  def blk(f):
    h = host.get(f)
    return f'{repr(h) if h is not None else "<dead>"} {f.__name__}'
  def node(x):
    if isinstance(x, Const):
      try: owner = repr(x.get_parent_object())
      except Exception: owner = '<noparent>'
      nb = sorted(repr(y) for y in top.get_signal_adjacency_dict().get(x, ()))
      return f'(const {owner} {nb[0] if len(nb) == 1 else "<" + str(len(nb)) + ">"} {int(x._dsl.const)})'
    return repr(x)
  def target(b, x):
    if isinstance(x, types.FunctionType):
      return f'{repr(host[b]) if b in host else "<dead>"}.{x.__name__}'
    return repr(x)
  E = []
  from pymtl3.dsl import Placeholder
  E += [f'(comp {repr(c)} {1 if isinstance(c, Placeholder) else 0})' for c in top.get_all_components()]
  sigs = top.get_all_object_filter(lambda x: isinstance(x, Signal))
  kind = lambda x: 'in' if isinstance(x, InPort) else 'out' if isinstance(x, OutPort) else 'wire'
  E += [f'(sig {repr(x)} {kind(x)})' for x in sigs | top._dsl.all_signals]
  mps = top.get_all_object_filter(lambda x: isinstance(x, MethodPort))
  E += [f'(mport {repr(x)} {"callee" if isinstance(x, CalleePort) else "caller"})' for x in mps | top._dsl.all_method_ports]
  E += [f'(blk {blk(b)})' for b in top.get_all_update_blocks()]
  E += [f'(ff {blk(b)})' for b in top.get_all_update_ff()]
  E += [f'(once {blk(b)})' for b in top.get_all_update_once()]
  rd, wr, ca = top.get_all_upblk_metadata()
  for tag, d in (('read', rd), ('write', wr), ('call', ca)):
    for b, xs in d.items():
      E += [f'({tag} {blk(b)} {target(b, x)})' for x in xs]
  uu, rdu, wru, mc = top.get_all_explicit_constraints()
  E += [f'(uu {blk(a)} {blk(b)})' for a, b in uu]
  for tag, d in (('rdu', rdu), ('wru', wru)):
    for v, cs in d.items():
      E += [f'({tag} {repr(v)} {1 if sign == 1 else 0} {blk(f)})' for sign, f in cs]
  def mref(x):
    return f'(u {blk(x)})' if isinstance(x, types.FunctionType) else f'(m {repr(x)})'
  E += [f'(mc {mref(x)} {mref(y)} {1 if eq else 0})' for x, y, eq in mc]
  for k, vs in top.get_signal_adjacency_dict().items():
    E += [f'(edge {node(k)} {node(v)})' for v in vs]
  E += [f'(dbuf {repr(x)})' for x in sigs | top._dsl.all_signals if x._dsl.needs_double_buffer]
  from pymtl3.dsl import Component, Interface
  from pymtl3.dsl.NamedObject import NamedObject
  def nm(f):
    try:
      r = f()
      return repr(r) if r is not None else 'none'
    except Exception as e:
      return '<' + type(e).__name__ + '>'
  for x in top._dsl.all_named_objects | top._collect_all_single():
    d = x._dsl
    lvl = getattr(d, 'level', 'absent')
    if isinstance(x, Component):
      kind, host = 'comp', repr(x)
      E.append(f'(lvl {repr(x)} {nm(x.get_component_level)} {nm(x.get_parent_object)} {host})')
      extra = f'clevel={nm(x.get_component_level)}'
    else:
      kind = 'sig' if isinstance(x, Signal) else 'mport' if isinstance(x, MethodPort) else 'ifc' if isinstance(x, Interface) else type(x).__name__
      host = nm(x.get_host_component)
      extra = ''
      if isinstance(x, Signal):
        extra = f'tls={1 if x.is_top_level_signal() else 0} top_level_signal={nm(x.get_top_level_signal)}'
      if (isinstance(x, Signal) and x.is_top_level_signal() or isinstance(x, MethodPort)) and nm(x.get_parent_object) == host:
        E.append(f'(lvl {repr(x)} {lvl} {nm(x.get_parent_object)} {host})')
    E.append(f'(obj {repr(x)} {kind} level={lvl} parent={nm(x.get_parent_object)} host={host} '
             f'full_name={"ok" if getattr(d, "full_name", None) == repr(x) else getattr(d, "full_name", None)} '
             f'my_name={getattr(d, "my_name", None)} {extra})'.replace(' )', ')'))
  for w, net in top.get_all_value_nets():
    E.append(f'(net {node(w) if w is not None else "none"} ({" ".join(sorted(node(x) for x in net))}))')
  for w, net in top.get_all_method_nets():
    E.append(f'(mnet {repr(w) if w is not None else "none"} ({" ".join(sorted(repr(x) for x in net))}))')
  return split_fields(E)

def scan(top):
  """everything held by a metadata container of the top or of a live component that belongs to nothing
  alive: named objects that a fresh traversal from the top does not reach (or whose name starts with
  `<deleted>`), constants whose owner is not alive or no longer lists them, update blocks / functions
  that no live component declares. Returns [(where, what, detail)]."""
  import types
  from pymtl3.dsl import Const
  from pymtl3.dsl.NamedObject import NamedObject
  live = top._collect_all_single()
  comps = [c for c in live if hasattr(c._dsl, 'upblks')]
  live_funcs, live_consts = set(), set()
  for c in comps:
    live_funcs |= set(c._dsl.upblks) | set(c._dsl.name_func.values())
    live_consts |= set(c._dsl.consts)
  out = []
  def bad(x):
    if isinstance(x, NamedObject):
      if repr(x).startswith('<deleted>'): return f'deleted {repr(x)} <{type(x).__name__}>'
      if x not in live: return f'unreachable {repr(x)} <{type(x).__name__}>'
    elif isinstance(x, Const):
      if x not in live_consts: return 'dead-const ' + repr(x)
    elif isinstance(x, types.FunctionType):
      if x not in live_funcs: return 'dead-func ' + x.__name__
    return None
  def walk(where, x, depth, note=''):
    if depth > 4: return
    if isinstance(x, dict):
      for k, v in x.items():
        empty = isinstance(v, (set, list, tuple, dict)) and len(v) == 0
        walk(where, k, depth + 1, 'key-of-empty' if empty else 'key')
        walk(where, v, depth + 1, 'value')
    elif isinstance(x, (set, frozenset, list, tuple)):
      for y in x: walk(where, y, depth + 1, note)
    else:
      b = bad(x)
      if b: out.append((where, b, note))
  for name, val in vars(top._dsl).items():
    if name.startswith('all_'): walk('top.' + name, val, 0)
  for c in comps:
    for name, val in vars(c._dsl).items():
      if name in ('parent_obj', 'elaborate_top', 'param_tree', 'args', 'kwargs') or name.startswith('all_'): continue
      if isinstance(val, (dict, set, list, tuple)): walk('local.' + name, val, 0)
  for x in live:
    if x not in top._dsl.all_named_objects:
      out.append(('top.all_named_objects', f'unregistered {repr(x)} <{type(x).__name__}>', ''))
  # a constant of a live component that is connected to nothing (its signal was removed)
  adj = top._dsl.all_adjacency
  for c in comps:
    for k in c._dsl.consts:
      if not adj.get(k): out.append(('local.consts', f'orphan-const {repr(k)} of {repr(c)}', ''))
  return sorted(set(out))
