"""C20, translator-based tie of ProcFL / ProcCL / TinyRV0Inst to the ISA model (round 12).

proof:          lean/PymtlVerif/Props/C20fGen.lean, Props/C20cGen.lean about lean/PymtlVerif/Gen/ProcFLGen.lean, Gen/ProcCLGen.lean, which
                tools/py2lean_procfl.py regenerates from examples/ex03_proc/{tinyrv0_encoding,ProcFL,ProcCL}.py before every build (pregen):
                every TinyRV0Inst accessor = the model's field; TinyRV0Inst.name = the model's decode (illegal words as the Python
                treats them); one execution of ProcFL's block = TinyRV0.stepX for every state (so n executions = n ISA steps);
                ProcCL: every branch of DXM / W / F for any environment, and DXM-then-W in the ideal environment = stepX.
correspondence: the GENERATED definitions themselves run natively (driver pv_procfl) next to the running Python: the TinyRV0Inst
                properties on assembled / mutated / random / table words, and the generated up_ProcFL iterated (flEnv) and generated
                DXM; W; F rounds (idealEnv) on every generated program, against ProcFL's / ProcCL's proc2mngr stream, final memory and
                commit count and against the ISA oracle -- this checks the translator's rendering, which the proofs trust.
direct oracle:  TinyRV0Inst.name of every word the ISA decodes = the ISA's instruction name (`nop` for 0x00000013).
"""
from ..common import leanio
from . import c20_util as u

DRIVERS = ['procfl']
F_MODULE, C_MODULE = 'PymtlVerif.Props.C20fGen', 'PymtlVerif.Props.C20cGen'
MODULES = [F_MODULE, C_MODULE]
F_THEOREMS = ['PV.C20fGen.' + t for t in [
  'gen_opcode_eq', 'gen_rd_eq', 'gen_rs1_eq', 'gen_rs2_eq', 'gen_shamt_eq', 'gen_funct3_eq', 'gen_funct7_eq', 'gen_i_imm_eq',
  'gen_csrnum_eq', 'gen_s_imm_eq', 'gen_b_imm_eq', 'gen_properties', 'gen_name_eq', 'gen_name_of_decode',
  'readN_four', 'writeN_four', 'readN_c18', 'writeN_c18',
  'fl_raised', 'fl_nop', 'fl_add', 'fl_sll', 'fl_srl', 'fl_and', 'fl_addi', 'fl_sw', 'fl_lw', 'fl_bne', 'fl_csrw_mngr', 'fl_csrw_xcel',
  'fl_csrw_other', 'fl_csrr_mngr', 'fl_csrr_xcel', 'fl_csrr_other', 'fl_unnamed',
  'gen_procfl_step_eq', 'gen_procfl_blocked_eq', 'gen_procfl_illegal_eq', 'gen_procfl_zero_word', 'gen_procfl_unknown_csr_eq',
  'gen_procfl_reset_eq', 'gen_procfl_init_eq', 'gen_procfl_run_eq', 'stepsX_runX', 'procfl_x0']]
C_THEOREMS = ['PV.C20cGen.' + t for t in [
  'dxm_redirect_pending', 'dxm_idle', 'dxm_w_full', 'dxm_raised', 'dxm_nop', 'dxm_unnamed', 'dxm_add', 'dxm_sll', 'dxm_srl', 'dxm_and',
  'dxm_addi', 'dxm_sw', 'dxm_sw_stall', 'dxm_lw', 'dxm_lw_stall', 'dxm_bne', 'dxm_csrw_mngr', 'dxm_csrw_xcel', 'dxm_csrw_xcel_stall',
  'dxm_csrw_other', 'dxm_csrr_mngr', 'dxm_csrr_mngr_stall', 'dxm_csrr_xcel', 'dxm_csrr_xcel_stall', 'dxm_csrr_other',
  'w_empty', 'w_none', 'w_arith', 'w_arith_overflow', 'w_mem', 'w_mem_stall', 'w_xcel', 'w_xcel_stall', 'w_mngr', 'w_mngr_stall',
  'f_reset', 'f_fetch', 'f_stall',
  'gen_proccl_exec_eq', 'gen_proccl_round_eq', 'gen_proccl_run_eq', 'gen_proccl_init_eq']]
THEOREMS = F_THEOREMS + C_THEOREMS
THEOREM_MODULE = {**{t: F_MODULE for t in F_THEOREMS}, **{t: C_MODULE for t in C_THEOREMS}}
TRUSTED = [
  'tools/py2lean_procfl.py (translator, trusted to render its Python subset faithfully: symbolic execution of the update blocks / '
  'properties, BitsN operators as Nat arithmetic with statically tracked widths, RegisterFile inlined, `try: .. except: print; raise` '
  'transparent, `print` ignored; anything else makes it fail) -- its rendering is additionally run natively against the Python on '
  'every generated program and on 1500+ instruction words (pv_procfl)',
  'Model/ProcEnv.lean `flEnv`: what the theorems about ProcFL ASSUME of its five FL interfaces -- imem.read / dmem.read / dmem.write are '
  'little-endian reads / writes of n bytes on ONE byte memory (= PV.Mem.readLE / writeLE, which Props/C18Gen proves equal to the '
  'regenerated read_bytearray_bits / write_bytearray_bits behind MagicMemoryFL), mngr2proc() pops the input stream and does not return '
  'while it is empty, proc2mngr(v) appends to the output stream, xcel.read / write are the NullXcel register; the FL->CL->RTL adapters '
  'between ProcFL and the test memory / source / sink / accelerator are tied by differential execution only',
  'Model/ProcEnv.lean `idealEnv`: the environment of the ProcCL composition theorem -- queues as lists, every memory / accelerator / manager '
  'request answered at once.  ProcCL\'s cycle-level behaviour under real timing (PipeQueueCL / DelayPipeDeqCL semantics, the schedule '
  'W < DXM < F the method constraints induce, stalls, memory latency) is NOT modelled: that W(i) precedes DXM(i+1) and that at most one '
  'instruction sits between DXM and W is argued in Props/C20cGen.lean, not proved; it stays with this run\'s differential execution',
]
ASSUMPTIONS = [
  'ProcFL / ProcCL theorems are conditional on the ISA being defined on the state (`stepX .. = ok`): aligned addresses below 1MB, '
  'CSRs mngr2proc / proc2mngr / xcelreg; where the ISA stops the theorems say what the Python does instead (blocks, raises, the zero word)',
  'values delivered by mngr2proc() / xcel.read / dmem.read are Bits32 (static type given by the translator); ProcCL\'s W raises '
  'ValueError on a larger mngr2proc value (w_arith_overflow)',
]

def pregen(ck):
  """regenerate Gen/ProcFLGen.lean and Gen/ProcCLGen.lean from the tinyrv0_encoding.py / ProcFL.py / ProcCL.py of $PV_REPO (default
  /repo) -- written only if the content changed; Props/C20fGen.lean / C20cGen.lean then re-prove generated = model"""
  import importlib.util, os
  path = os.path.join(leanio.VERIF, 'tools', 'py2lean_procfl.py')
  spec = importlib.util.spec_from_file_location('py2lean_procfl', path)
  mod = importlib.util.module_from_spec(spec); spec.loader.exec_module(mod)
  return mod.pregen()

PROPS = ['opcode', 'rd', 'rs1', 'rs2', 'shamt', 'i_imm', 's_imm', 'b_imm', 'csrnum', 'funct7', 'funct3']

def real_fields(w):
  """what the real TinyRV0Inst says about word w, in the driver's format"""
  from examples.ex03_proc.tinyrv0_encoding import TinyRV0Inst
  t = TinyRV0Inst(w)
  try: name = t.name
  except Exception as e: name = '!' + type(e).__name__
  return ' '.join([str(name)] + [str(int(getattr(t, p))) for p in PROPS])

def check_fields(ck, words):
  words = sorted(set(w & 0xffffffff for w in words))
  rep = ck.drv('procfl').batch([leanio.line('procfl', 'fields', w) for w in words])
  for w, m in zip(words, rep):
    case = {'part': 'fields', 'word': w}
    d = u.isa_decode(w)
    got = real_fields(w)
    ck.count(case, d is not None); ck.hist('fields', 'valid' if d else 'invalid')
    name = got.split(' ')[0]
    want = None if d is None else ('nop' if w == 0x13 else d[0])
    if want is not None and name != want:
      ck.violation('inst-name-vs-isa', {'inst': want}, case,
                   {'TinyRV0Inst.name': name, 'isa_document': want, 'generated': m,
                    'oracle': 'opcode / funct3 / funct7 table of tinyrv0-isa.md restated in Python (c20_util.isa_decode)'})
    elif m != got:
      ck.disagreement('Gen.ProcFLGen.Inst≈TinyRV0Inst', case, m, got)

def gen_lines(pr, fuel):
  img = [[a, w] for a, w in pr['words']]
  return (leanio.line('procfl', 'flrun', img, list(pr['inp']), fuel), leanio.line('procfl', 'clrun', img, list(pr['inp']), fuel))

def parse_gen(reply):
  t = leanio.parse_sexp(reply)
  stop, count, pc, out, regs, mem, xr0 = t[:7]
  return dict(stop=stop, count=int(count), pc=int(pc), out=[int(x) for x in out], regs=[int(x) for x in regs],
              mem={int(a): int(w) for a, w in mem}, xr0=int(xr0), commits=int(t[7]) if len(t) > 7 else int(count))

def check_gen_vs_oracle(ck, pr, g, level, image_of):
  """the generated blocks, run natively, against the ISA oracle's run of the program (the theorems say they must agree)"""
  ref = pr['ref']
  case = {'part': 'program', 'text': pr['text'], 'inp': pr['inp'], 'cfg': [0, 0, 0, 1], 'level': level}
  want_commits = ref['icount'] - (ref['nops'] if level == 'CL' else 0)
  ok = (g['stop'] == 'zero' and g['count'] == ref['icount'] and g['out'] == ref['out'] and g['regs'] == ref['regs'] and g['pc'] == ref['pc']
        and g['xr0'] == ref['xr0'] and image_of(g) == ref['mem'] and g['commits'] == want_commits)
  if not ok:
    ck.disagreement(f'Gen.Proc{level}Gen (native run of the generated blocks)≈ISA oracle', case,
                    {k: (g[k][:60] if isinstance(g[k], list) else g[k]) for k in ('stop', 'count', 'pc', 'out', 'regs', 'xr0', 'commits')},
                    {'stop': 'zero', 'count': ref['icount'], 'pc': ref['pc'], 'out': ref['out'][:60], 'regs': ref['regs'], 'xr0': ref['xr0'],
                     'commits': want_commits})
  return ok

def compare_with_proc(ck, case, g, r, level, image_of):
  """the generated blocks against what the real ProcFL / ProcCL did on the same program (any timing)"""
  n = (1 << 20) - 1
  if g['out'] != r['out'] or image_of(g)[:n] != r['mem'] or g['commits'] != r['commits']:
    ck.disagreement(f'Gen.Proc{level}Gen (native run of the generated blocks)≈Proc{level}', case,
                    {'out': g['out'][:100], 'commits': g['commits'], 'stop': g['stop']}, {'out': r['out'][:100], 'commits': r['commits']})

def replay_fields(ck, w):
  m = ck.drv('procfl').batch([leanio.line('procfl', 'fields', w)])[0]
  d = u.isa_decode(w); got = real_fields(w)
  print(f'word={w:#010x}\nTinyRV0Inst (name {" ".join(PROPS)}) = {got}\ngenerated                              = {m}\nisa document decode = {d}')
  want = None if d is None else ('nop' if w == 0x13 else d[0])
  return 0 if (want is None or got.split(' ')[0] == want) else 1
