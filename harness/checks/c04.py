"""C04 — Bits arithmetic is exact unsigned arithmetic modulo 2^n.

proof:          lean/PymtlVerif/Props/C04.lean  (all widths, all operands)
correspondence: every operator of pymtl3.datatypes.Bits vs Model/Bits.lean on boundary-biased operands
direct oracle:  independent big-int specification (harness/common/bitsutil.py: spec_*) and, for every value-returning
                operator, purity: the result is a fresh object (updating it in place changes neither the operands nor what
                the same operation returns next) — "is a function of its operands" 
"""
import itertools

from ..common import leanio
from ..common import bitsutil as bu
from ..common.bitsutil import Bits, mk_bits

PID = 'C04'
DRIVERS = ['bits']
MODULE = ['PymtlVerif.Props.C04', 'PymtlVerif.Props.C04Gen']
THEOREMS = ['PV.C04.' + t for t in [
  'tables', 'add_spec', 'sub_spec', 'mul_spec', 'div_spec', 'bitwise_spec', 'invert_spec', 'invert_testBit',
  'shift_spec', 'cmp_spec', 'cmpRaw_spec', 'width_mismatch', 'int_operand', 'reflected', 'reflected_out_of_range',
  'ctor_spec', 'ctor_value', 'ctor_bad_width', 'ctor_from_bits', 'assign_spec', 'nb_assign_spec',
  'binRaw_lt', 'range_invariant_binop', 'range_invariant_rbinop', 'range_invariant_cmp', 'range_invariant_ctor',
  'range_invariant_assign', 'range_invariant_invert', 'int_signed']]
# generated-from-source = model (Props/C04Gen.lean; Gen/BitsGen.lean is regenerated from /repo by pregen below)
GEN_THEOREMS = ['PV.C04Gen.gen_' + t + '_eq' for t in [
  'upperTab', 'lowerTab', 'tabLen', 'init', 'imatmul', 'ilshift', 'flip',
  'add', 'sub', 'mul', 'and', 'or', 'xor', 'floordiv', 'mod', 'lshift', 'rshift',
  'radd', 'rsub', 'rmul', 'rand', 'ror', 'rxor', 'rfloordiv', 'rmod',
  'eq', 'ne', 'lt', 'le', 'gt', 'ge', 'invert', 'bool', 'dunder_int', 'int', 'uint', 'index']]
THEOREMS = THEOREMS + GEN_THEOREMS
THEOREM_MODULE = {t: 'PymtlVerif.Props.C04Gen' for t in GEN_THEOREMS}
TRUSTED = [
  'Model/Bits.lean follows PythonBits.py method by method; `x & _upper[n]` on Python ints is modelled as `% 2^n` on Int',
  'operand dispatch (try .nbits / except AttributeError / int()) modelled as a three-way split on the operand kind',
  'tools/py2lean_bits.py (translator, trusted to render its Python subset faithfully): straight-line int code (+ - * // % & | ^ ~ << >>, comparisons, and/or/not, conditional expressions, int()/abs()/isinstance, _upper/_lower table reads), if/assert/raise/return, try/except resolved statically per operand kind (Bits / int / other; None / int bound; unset _next), for over *args and fuel-bounded while; Python ints as Lean Int through Gen/PyInt.lean (pyAnd, pyOr, pyXor, pyNot, pyShl, pyShr, pyFloorDiv, pyMod: trusted statements of the Python operators); implicit raises (ZeroDivisionError, negative shift count, table IndexError) are emitted as guards; exception messages are not evaluated; a raise ValueError under an `if` that reads `.nbits` is Err.width, any other Err.range (both are ValueError); `bN(v)` is read as `Bits(N, v)`; int() of a non-Bits, non-int operand raises TypeError; anything outside the subset makes the translator fail (broken obligation), never guess',
]
ASSUMPTIONS = [
  'pure-Python Bits implementation (the optional mamba C extension is absent in this sandbox)',
  'exotic operand types (float, str, objects with nbits but no _uint) are outside the theorem; sampled only via the NotInt operand',
]
RULE = ('operator x operand-form x width x boundary-biased operands drawn from one PRNG; a case is non-trivial when the '
        'result is an ok value with both operands non-zero, or an error; distinct = distinct canonical case tuple')

def pregen(ck):
  """translator-based tie: regenerate lean/PymtlVerif/Gen/BitsGen.lean from the current PythonBits.py / helpers.py
  (written only if its content changed); Props/C04Gen.lean then re-proves generated = model"""
  import importlib.util, os
  path = os.path.join(leanio.VERIF, 'tools', 'py2lean_bits.py')
  spec = importlib.util.spec_from_file_location('py2lean_bits', path)
  mod = importlib.util.module_from_spec(spec); spec.loader.exec_module(mod)
  return mod.pregen()

def gen_opnd(rng, n):
  """right operand for a Bits of width n"""
  r = rng.random()
  if r < 0.5: return ('b', n, bu.rand_value(rng, n))
  if r < 0.62:
    m = rng.choice([max(1, n - 1), min(1023, n + 1), bu.rand_width(rng)])
    return ('b', m, bu.rand_value(rng, m))
  if r < 0.97: return ('i', bu.rand_int(rng, n))
  return ('o',)

def gen_case(rng):
  kind = rng.choices(['bin', 'rbin', 'cmp', 'rcmp', 'inv', 'ctor', 'imatmul', 'ilshift', 'int', 'uint', 'bool'],
                     [30, 14, 14, 6, 3, 12, 6, 5, 4, 2, 2])[0]
  n = bu.rand_width(rng)
  a = bu.rand_value(rng, n)
  if kind == 'bin':
    op = rng.choice(list(bu.BINOPS))
    y = gen_opnd(rng, n)
    if op in ('lshift', 'rshift') and y[0] in 'bi' and rng.random() < 0.5:
      amt = rng.choice([0, 1, n - 1, n, n + 1, 2 * n])
      y = (y[0], n, min(amt, (1 << n) - 1)) if y[0] == 'b' else ('i', amt)
    return ['bin', op, n, a, list(y)]
  if kind == 'rbin':
    op = rng.choice(list(bu.BINOPS))
    k = ('i', bu.rand_int(rng, n)) if rng.random() < 0.97 else ('o',)
    return ['rbin', op, list(k), n, a]
  if kind == 'cmp':
    y = gen_opnd(rng, n)
    if y[0] == 'b' and y[1] == n and rng.random() < 0.3: y = ('b', n, a)
    return ['cmp', rng.choice(list(bu.CMPOPS)), n, a, list(y)]
  if kind == 'rcmp':
    k = ('i', bu.rand_int(rng, n) if rng.random() < 0.7 else a)
    return ['rcmp', rng.choice(list(bu.CMPOPS)), list(k), n, a]
  if kind == 'inv': return ['inv', n, a]
  if kind == 'ctor':
    nb = rng.choice([n, n, n, n, 0, -1, 1024, 1025, 1023, 1])
    nn = nb if 1 <= nb < 1024 else n
    r = rng.random()
    if r < 0.7: v = ('i', bu.rand_int(rng, nn))
    elif r < 0.85: v = ('b', nn, bu.rand_value(rng, nn))
    else:
      m = rng.choice([max(1, nn - 1), min(1023, nn + 1)])
      v = ('b', m, bu.rand_value(rng, m))
    return ['ctor', nb, list(v), rng.random() < 0.3]
  if kind in ('imatmul', 'ilshift'):
    return [kind, n, a, list(gen_opnd(rng, n))]
  return [kind, n, a]

def model_line(c):
  k = c[0]
  if k == 'bin': return leanio.line('bits', 'bin', c[1], ('b', c[2], c[3]), bu.opnd_sexp(c[4]))
  if k == 'rbin': return leanio.line('bits', 'rbin', c[1], bu.opnd_sexp(c[2]), ('b', c[3], c[4]))
  if k == 'cmp': return leanio.line('bits', 'cmp', c[1], ('b', c[2], c[3]), bu.opnd_sexp(c[4]))
  if k == 'rcmp': return leanio.line('bits', 'rcmp', c[1], bu.opnd_sexp(c[2]), ('b', c[3], c[4]))
  if k == 'inv': return leanio.line('bits', 'inv', ('b', c[1], c[2]))
  if k == 'ctor': return leanio.line('bits', 'ctor', c[1], bu.opnd_sexp(c[2]), bool(c[3]))
  if k in ('imatmul', 'ilshift'): return leanio.line('bits', k, ('b', c[1], c[2]), bu.opnd_sexp(c[3]))
  if k in ('int', 'uint', 'bool'): return leanio.line('bits', k, ('b', c[1], c[2]))
  raise ValueError(k)

def impl_eval(c):
  k = c[0]
  if k == 'bin':
    x, y = bu.mk(c[2], c[3]), bu.opnd_real(c[4]); f = bu.BINOPS[c[1]]
    return bu.run_fresh(lambda: f(x, y), (x, y))
  if k == 'rbin':
    kk, x = bu.opnd_real(c[2]), bu.mk(c[3], c[4]); f = bu.BINOPS[c[1]]
    return bu.run_fresh(lambda: f(kk, x), (kk, x))
  if k == 'cmp':
    x, y = bu.mk(c[2], c[3]), bu.opnd_real(c[4]); f = bu.CMPOPS[c[1]]
    return bu.run_fresh(lambda: f(x, y), (x, y))
  if k == 'rcmp':
    kk, x = bu.opnd_real(c[2]), bu.mk(c[3], c[4]); f = bu.CMPOPS[c[1]]
    return bu.run_fresh(lambda: f(kk, x), (kk, x))
  if k == 'inv':
    x = bu.mk(c[1], c[2]); return bu.run_fresh(lambda: ~x, (x,))
  if k == 'ctor':
    v = bu.opnd_real(c[2])
    if c[3]: return bu.run(lambda: Bits(c[1], v, trunc_int=True))
    if 1 <= c[1] < 1024 and (c[1] % 2 == 0):
      return bu.run(lambda: mk_bits(c[1])(v))
    return bu.run(lambda: Bits(c[1], v))
  if k == 'imatmul':
    x, v = bu.mk(c[1], c[2]), bu.opnd_real(c[3])
    def f():
      y = x
      y @= v
      assert y is x
      return x
    return bu.run(f)
  if k == 'ilshift':
    x, v = bu.mk(c[1], c[2]), bu.opnd_real(c[3])
    try:
      y = x
      y <<= v
      before = int(x.uint())
      x._flip()
      return f'ok {int(x.nbits)} {before} {int(x.uint())}'
    except Exception as e:
      return bu.canon_exc(e)
  x = bu.mk(c[1], c[2])
  if k == 'int': return bu.run_int(lambda: x.int())
  if k == 'uint':
    # all unsigned readings must agree
    try:
      vals = {int(x.uint()), int(x), x.__index__(), int(x._uint)}
      assert len(vals) == 1, vals
      return f'int {vals.pop()}'
    except Exception as e:
      return bu.canon_exc(e)
  if k == 'bool': return bu.run_int(lambda: bool(x))
  raise ValueError(k)

def spec(c):
  """independent specification: set of acceptable canonical outcomes"""
  k = c[0]
  if k == 'bin': return bu.spec_binop(c[1], c[2], c[3], c[4])
  if k == 'rbin': return bu.spec_rbinop(c[1], c[2], c[3], c[4])
  if k == 'cmp': return bu.spec_cmp(c[1], c[2], c[3], c[4])
  if k == 'rcmp': return bu.spec_cmp(bu.SWAP[c[1]], c[3], c[4], c[2])
  if k == 'inv': return {f'ok {c[1]} {(1 << c[1]) - 1 - c[2]}'}
  if k == 'ctor': return bu.spec_ctor(c[1], c[2], c[3])
  if k == 'imatmul': return bu.spec_assign(c[1], c[3])
  if k == 'ilshift':
    s = bu.spec_assign(c[1], c[3])
    out = set()
    for r in s:
      if r.startswith('ok'):
        _, n, v = r.split(); out.add(f'ok {n} {c[2]} {v}')     # unchanged before the flip, new value after
      else: out.add(r)
    return out
  n, a = c[1], c[2]
  if k == 'int': return {f'int {a if a < (1 << (n - 1)) else a - (1 << n)}'}
  if k == 'uint': return {f'int {a}'}
  if k == 'bool': return {f'int {int(a != 0)}'}
  raise ValueError(k)

def nontrivial(c, out):
  if out.startswith('err'): return True
  k = c[0]
  if k in ('bin', 'cmp'): return c[3] != 0 and (c[4][0] != 'o') and (c[4][-1] != 0)
  if k in ('rbin', 'rcmp'): return c[4] != 0
  return True

def signature(c):
  return {'kind': c[0], 'op': c[1] if isinstance(c[1], str) else None}

def process(ck, cases):
  lines = [model_line(c) for c in cases]
  model = ck.driver.batch(lines)
  for c, m in zip(cases, model):
    impl = impl_eval(c)
    ok_set = spec(c)
    ck.count(c, nontrivial(c, impl))
    ck.hist('kind', c[0])
    ck.hist('outcome', impl.split()[0] + (' ' + impl.split()[1] if impl.startswith('err') else ''))
    if c[0] in ('bin', 'rbin', 'cmp', 'rcmp'): ck.hist('op', c[1])
    if impl not in ok_set:
      ck.violation('spec-mismatch', signature(c), c,
                   {'impl': impl, 'spec_accepts': sorted(ok_set), 'model': m,
                    'oracle': 'independent big-int specification of the operator'})
    elif impl != m:
      ck.disagreement('Model/Bits≈PythonBits', c, m, impl)

def exhaustive_small(ck, maxn):
  """all operands, all operators, ints in [-2^n-2, 2^n+2] for n <= maxn"""
  cases = []
  for n in range(1, maxn + 1):
    M = 1 << n
    vals = range(M)
    ints = range(-M - 2, M + 3)
    for a in vals:
      cases.append(['inv', n, a]); cases.append(['int', n, a]); cases.append(['uint', n, a]); cases.append(['bool', n, a])
      for op in bu.BINOPS:
        for b in vals: cases.append(['bin', op, n, a, ['b', n, b]])
        for k in ints:
          cases.append(['bin', op, n, a, ['i', k]]); cases.append(['rbin', op, ['i', k], n, a])
        for m in (n - 1, n + 1):
          if m >= 1:
            for b in range(1 << m): cases.append(['bin', op, n, a, ['b', m, b]])
      for op in bu.CMPOPS:
        for b in vals: cases.append(['cmp', op, n, a, ['b', n, b]])
        for k in ints:
          cases.append(['cmp', op, n, a, ['i', k]]); cases.append(['rcmp', op, ['i', k], n, a])
      for k in ints:
        cases.append(['imatmul', n, a, ['i', k]]); cases.append(['ilshift', n, a, ['i', k]])
    for k in ints:
      cases.append(['ctor', n, ['i', k], False]); cases.append(['ctor', n, ['i', k], True])
  return cases

def run(ck):
  rng = ck.rng
  total = 40000 if ck.tier == 'quick' else 1200000
  done = 0
  # corpus of directed cases first (boundaries that realistic mutations hit)
  corpus = [
    ['bin', 'add', 8, 255, ['b', 8, 1]], ['bin', 'sub', 8, 0, ['b', 8, 1]], ['bin', 'sub', 8, 0, ['i', 255]],
    ['bin', 'lshift', 8, 1, ['b', 8, 8]], ['bin', 'lshift', 8, 255, ['i', 7]], ['bin', 'lshift', 8, 1, ['i', 8]],
    ['bin', 'rshift', 8, 128, ['i', 7]], ['bin', 'floordiv', 8, 9, ['b', 8, 0]], ['bin', 'mod', 8, 9, ['i', 0]],
    ['rbin', 'sub', ['i', 0], 8, 1], ['rbin', 'floordiv', ['i', 7], 8, 0], ['rbin', 'mod', ['i', 255], 8, 16],
    ['bin', 'add', 8, 1, ['i', 256]], ['bin', 'add', 8, 1, ['i', -1]], ['bin', 'and', 8, 255, ['i', 256]],
    ['cmp', 'eq', 8, 1, ['i', 256]], ['cmp', 'lt', 8, 1, ['b', 9, 1]], ['cmp', 'eq', 8, 1, ['o']], ['cmp', 'ne', 8, 1, ['o']],
    ['ctor', 8, ['i', -128], False], ['ctor', 8, ['i', -129], False], ['ctor', 8, ['i', 255], False], ['ctor', 8, ['i', 256], False],
    ['ctor', 1023, ['i', (1 << 1023) - 1], False], ['ctor', 1024, ['i', 0], False], ['ctor', 0, ['i', 0], False],
    ['ctor', 8, ['i', 1000], True], ['ctor', 8, ['b', 9, 3], False], ['ctor', 8, ['b', 7, 3], True],
    ['imatmul', 8, 5, ['i', -128]], ['imatmul', 8, 5, ['i', -129]], ['imatmul', 8, 5, ['b', 4, 1]],
    ['ilshift', 8, 5, ['i', 255]], ['ilshift', 8, 5, ['i', 256]], ['int', 8, 128], ['int', 1, 1], ['int', 1023, 1 << 1022],
    ['inv', 1023, 0], ['bin', 'mul', 1023, (1 << 1023) - 1, ['b', 1023, (1 << 1023) - 1]],
  ]
  process(ck, corpus)
  while done < total:
    k = min(20000, total - done)
    process(ck, [gen_case(rng) for _ in range(k)])
    done += k
    if ck.violations and len(ck.violations) > 50: break
  if ck.tier == 'thorough':
    ex = exhaustive_small(ck, 4)
    for i in range(0, len(ex), 50000):
      process(ck, ex[i:i + 50000])
    ck.extra_cov['exhaustive_part'] = f'all operators x all operands x ints in [-2^n-2, 2^n+2] for n <= 4: {len(ex)} cases'
  # a few consistency probes outside the line protocol: hashing and Bits1 feedback
  for _ in range(200):
    n = bu.rand_width(rng); a = bu.rand_value(rng, n)
    x, y = bu.mk(n, a), Bits(n, a)
    if not (hash(x) == hash(y) and bool(x == y)):
      ck.violation('hash-eq', {'kind': 'hash'}, ['hash', n, a], {'impl': 'equal values hash differently'})
    c = (x == y)
    if not (isinstance(c, Bits) and c.nbits == 1 and int(c & 1) == 1 and int(~c) == 0):
      ck.violation('cmp-result', {'kind': 'cmp-feedback'}, ['cmpfb', n, a], {'impl': repr(c)})
  # hash() after a history of in-place updates (hash is in the property's operator list)
  OPS = ['imatmul-int', 'imatmul-neg', 'imatmul-bits', 'ilshift-flip', 'setbit', 'setslice']
  for _ in range(600 if ck.tier == 'quick' else 20000):
    n = bu.rand_width(rng); a = bu.rand_value(rng, n)
    ops = [(rng.choice(OPS), bu.rand_value(rng, n)) for _ in range(rng.randint(1, 4))]
    case = [n, a, ops]
    ok, msg = hash_history(ck, case)
    ck.count(['hash-history'] + case, True); ck.hist('kind', 'hash-history')
    if not ok:
      ck.violation('hash-after-history', {'kind': 'hash', 'last_op': ops[-1][0]}, ['hash-history'] + case,
                   {'impl': msg, 'oracle': 'hash(x) == hash(Bits(n, value of x)) after any sequence of in-place updates; equal values hash equal'})

def hash_history(ck, case):
  """hash() of a Bits is a function of (nbits, value) whatever happened to the object before: `case` = [n, a, ops] applies
  the in-place operations `ops` to Bits(n, a), reading hash() before each of them, and compares the final hash with that
  of a fresh object of the same value (equal values must hash equal, also as dict / set keys)."""
  n, a, ops = case
  x = bu.mk(n, a)
  M = (1 << n) - 1
  for (op, v) in ops:
    hash(x)
    if op == 'imatmul-int': x @= v
    elif op == 'imatmul-neg': x @= -((-v) & (M >> 1)) - 1 if n > 1 else 0
    elif op == 'imatmul-bits': x @= bu.mk(n, v)
    elif op == 'ilshift-flip':
      x <<= v; x._flip()
    elif op == 'setbit': x[v % n] = 1 - int(x[v % n])
    elif op == 'setslice' and n >= 2:
      lo = v % (n - 1); x[lo:lo + 1] = 1 - int(x[lo])
  fresh = bu.mk(n, int(x.uint()))
  ok = (hash(x) == hash(fresh) and bool(x == fresh) and (x in {fresh}) and ({x: 1}.get(fresh) == 1))
  return ok, f'value {int(x.uint())}: hash(x)={hash(x)} hash(fresh)={hash(fresh)} eq={bool(x == fresh)}'

def replay(ck, data):
  c = data['case']
  if c and c[0] == 'hash-history':
    ok, msg = hash_history(ck, c[1:]); print(msg); return 0 if ok else 1
  m = ck.driver.batch([model_line(c)])[0]
  impl = impl_eval(c)
  print(f'case={c}\nmodel={m}\nimpl={impl}\nspec accepts={sorted(spec(c))}')
  return 0 if impl in spec(c) else 1
