"""C13 (and C03 where the emitted text is invalid) -- identifiers made by `__`-joining user names, struct type names.

model:          Model/Names.lean `flatId` / `flatCollisions` / `okName` (identifier of a hardware object = "__".join of the user
                names and decimal list indices on its path), `DT.fullName` / `structName` / `flatStruct` / `DT.leafWidths`
theorems:       PV.C13.flatId_inj, flatIds_nodup, flatCollisions_eq_nil_iff, structFullName_inj, structName_inj and the
                witnesses flatId_collision_witnesses, structName_collision_witnesses, struct_collision_changes_layout
streams:        (1) WITNESSES: the pairs of the three witness theorems, literally, built as real designs / bitstruct types and
                put through the real get_rtlir_dtype and both translators;
                (2) flat designs: a top with ports (vector, list, struct), wires, interfaces (nested, lists) and children
                (single / list; ports, port lists, struct ports, interfaces) whose names are drawn from an adversarial pool
                (`a__b`, `b__c`, `a__0`, `a_0`, `in_`, names equal to the mangled form of a sibling) or, for the clean half,
                from well-formed names only; connections from fresh top-level ports to child ports;
                (3) struct types: pairs of bitstruct types (planted, every kind in every run: nesting shift, `f`:`X_S` /
                `f_X`:`S`, `__` in a field or class name, list of structs / struct with a list, class name ending in
                `_<width>`, the >= 64-character hashed path; near misses, every kind in every run: well-formed types without
                nested structs that only a weaker separator / run-together digits / a dropped field order would confuse;
                random well-formed flat and nested types) used by one design (ports of both types, one parametrized child
                per type, one read of a randomly chosen field per type);
                (4) component names: a class whose name contains `__` next to a class whose parameters spell the same module
                name, string parameters containing `__`.
direct oracles: every identifier of a module scope is declared once (c13_scan.direct_wf); every port connection of an
                instance names a wire declared in the parent whose every declaration has the width of that port of the
                instantiated module; every `typedef struct` of the text has the field layout of the Python type of every port /
                wire declared with it, and every `x.f.g` of an assign exists in the typedefs (SystemVerilog backend); instances
                sharing a module name have identical bodies. A design the translator REFUSES is fine when the naming scheme
                really makes two different objects / types meet (restated here in Python, independently of the model:
                '__'.join over the paths -- of either backend: one rule for both --, t_py_name over the types) and a violation
                (legal-design-refused) otherwise.
                Collisions that are inherent in the naming scheme carry the finding labels `flattened-identifier-collision` /
                `struct-name-collision` (known findings until /repo refuses such designs); the same symptoms on a design
                whose names do not collide under the scheme are `unlabelled`.
correspondence: the identifiers the model gives for the paths read off the design description = the identifiers scanned
                from the emitted text (as multisets, per module, both backends); model struct names = real names; the model's
                well-formedness verdicts = the Python restatement.
"""
import hashlib, importlib, itertools, json, os, re, sys

from ..common import leanio
from ..common.leanio import InfraError
from . import c13_scan, c13_worker

FLAT_FINDING = 'flattened-identifier-collision'
STRUCT_FINDING = 'struct-name-collision'

def S(s): return [ord(c) for c in s]
def unS(x): return ''.join(chr(int(c)) for c in x)

def ok_name(n):
  """Python restatement of Model/Names.okName"""
  return bool(n) and n[0] != '_' and not n[0].isdigit() and '__' not in n

def seg_sexp(path):
  return [['i', s] if isinstance(s, int) else ['n', S(s)] for s in path]

def py_flat(path):
  return '__'.join(str(s) for s in path)

# ============================================================================== flat designs

GOOD = ['a', 'b', 'c', 'a_', 'in_', 'a_0', 'b1', 'x_y', 'c_', 'd', 'a_b', 'e0']
BAD = ['a__b', 'b__c', 'a__0', 'a__1', 'a__b__c', 'b__0', 'a___b', 'in___c', 'a__in_', 'c__0__a', 'a__c', 'a_0__b', 'b__a']

class FlatGen:
  """description of one design: every component is a dict
       ports: [(name, ('vec', w) | ('arr', n, w) | ('struct', key))]   wires: [(name, w)]
       ifcs:  [(name, ifc key, n | None)]   kids: [(name, comp key, n | None)]
     interface classes: {key: {'ports': [(name, w)], 'subs': [(name, key)]}}; struct classes: {key: [(field, w)]}"""
  def __init__(self, rng, uid, adversarial):
    self.rng, self.u, self.adv = rng, uid, adversarial
    self.ifcs, self.structs, self.comps = {}, {}, {}

  def names(self, n, planted=()):
    rng = self.rng
    out = list(planted)
    pool = GOOD + (BAD * 2 if self.adv else [])
    while len(out) < n:
      x = rng.choice(pool)
      if x not in out: out.append(x)
    rng.shuffle(out)
    return out[:max(n, len(planted))]

  def w(self): return self.rng.choice([1, 2, 3, 4, 8])

  def mk_struct(self):
    key = f'St{len(self.structs)}_{self.u}'
    self.structs[key] = [(n, self.w()) for n in self.names(self.rng.choice([1, 2, 3]))]
    return key

  def mk_ifc(self, depth=0, planted=()):
    rng = self.rng
    key = f'If{len(self.ifcs)}_{self.u}'
    self.ifcs[key] = None
    nm = self.names(rng.choice([1, 2, 3]), planted)
    subs = []
    ports = []
    for i, n in enumerate(nm):
      if depth == 0 and rng.random() < 0.3: subs.append((n, self.mk_ifc(1)))
      else: ports.append((n, self.w()))
    if not ports and not subs: ports.append(('a', 1))
    self.ifcs[key] = {'ports': ports, 'subs': subs}
    return key

  def ptype(self, allow_struct=True):
    r = self.rng.random()
    if r < 0.6: return ('vec', self.w())
    if r < 0.8 or not allow_struct: return ('arr', self.rng.choice([1, 2, 3]), self.w())
    return ('struct', self.mk_struct())

  def mk_comp(self, top, planted_ports=(), planted_ifcs=()):
    rng = self.rng
    key = f'Top_{self.u}' if top else f'K{len(self.comps)}_{self.u}'
    self.comps[key] = None
    n_ports = rng.choice([1, 2, 3]) if not top else rng.choice([0, 1, 2, 3])
    n_ifcs = rng.choice([0, 0, 1]) if not top else rng.choice([0, 1, 2])
    n_wires = rng.choice([0, 1, 2]) if top else 0
    n_kids = rng.choice([1, 2, 3]) if top else 0
    nm = self.names(n_ports + n_ifcs + n_wires + n_kids, tuple(planted_ports) + tuple(planted_ifcs))
    nm = [x for x in nm if x not in ('clk', 'reset')]
    c = {'ports': [], 'wires': [], 'ifcs': [], 'kids': []}
    for x in nm:
      if x in planted_ports: c['ports'].append((x, ('vec', self.w())))
      elif x in planted_ifcs: c['ifcs'].append((x, self.mk_ifc(), None))
      elif len(c['kids']) < n_kids:
        c['kids'].append((x, None, rng.choice([None, None, 1, 2, 3])))
      elif len(c['ports']) < n_ports: c['ports'].append((x, self.ptype()))
      elif len(c['ifcs']) < n_ifcs:
        arr = rng.choice([None, None, 2]) if top else None
        c['ifcs'].append((x, self.mk_ifc(1 if arr else 0), arr))
      else: c['wires'].append((x, self.w()))
    self.comps[key] = c
    return key

  def plant(self, sep='__'):
    """two different object paths below the top whose names coincide when joined with `sep`: '__' gives a collision of
    the real scheme (user names containing '__'), '_' a near miss (well-formed names that only a weaker separator would
    confuse). Returns the two paths as lists of user names"""
    rng = self.rng
    segs = [rng.choice(['a', 'b', 'c', 'in_', 'd'] if sep == '__' else ['a', 'b', 'c', 'd', 'e0']) for _ in range(rng.choice([2, 3, 3, 4]))]
    def split(k):       # group the segments into k consecutive groups, each group one user name
      cuts = sorted(rng.sample(range(1, len(segs)), k - 1)) if k > 1 else []
      groups, prev = [], 0
      for cpos in cuts + [len(segs)]:
        groups.append(sep.join(segs[prev:cpos])); prev = cpos
      return groups
    for _ in range(20):
      ka, kb = rng.choice([1, 2, 2, 3]), rng.choice([2, 2, 3])
      ka, kb = min(ka, len(segs)), min(kb, len(segs))
      A, B = split(ka), split(kb)
      if A != B and len(B) >= 2: return A, B
    return None

def build_flat(rng, uid, adversarial):
  g = FlatGen(rng, uid, adversarial)
  plan = g.plant() if adversarial and rng.random() < 0.7 else (g.plant('_') if not adversarial and rng.random() < 0.6 else None)
  top_ports, top_ifcs, kid_plans = [], [], {}
  if plan:
    for grp in plan:
      # a path of 1 name: a top-level port / wire; 2 names: child.port or interface.port; 3: child.interface.port
      if len(grp) == 1: top_ports.append(grp[0])
      elif len(grp) == 2 and rng.random() < 0.35 and grp[0] not in kid_plans: top_ifcs.append(tuple(grp))
      else: kid_plans.setdefault(grp[0], []).append(grp[1:])
  top_ifc_names = [x[0] for x in top_ifcs if x[0] not in kid_plans and x[0] not in top_ports]
  planted = [x for x in dict.fromkeys(top_ports)]
  key = g.mk_comp(True, [x for x in planted if x not in kid_plans and x not in top_ifc_names], top_ifc_names)
  top = g.comps[key]
  # well-formed near misses with lists: a port list / child list `x` next to a port / child `x_0`, `x_1`
  if not adversarial and rng.random() < 0.5:
    used = {n for grp in (top['ports'], top['wires'], top['ifcs'], top['kids']) for n, *_ in grp} | set(kid_plans)
    x = rng.choice(['b', 'c', 'd', 'e0'])
    if x not in used and f'{x}_0' not in used and f'{x}_1' not in used:
      if rng.random() < 0.5:
        top['ports'] += [(x, ('arr', rng.choice([2, 3]), g.w())), (f'{x}_{rng.choice([0, 1])}', ('vec', g.w()))]
      else:
        top['kids'] += [(x, None, rng.choice([2, 3])), (f'{x}_{rng.choice([0, 1])}', None, None)]
  # planted interface contents
  for name, ik, _ in top['ifcs']:
    want = [x[1] for x in top_ifcs if x[0] == name]
    have = [p for p, _ in g.ifcs[ik]['ports']] + [p for p, _ in g.ifcs[ik]['subs']]
    for p in want:
      if p not in have: g.ifcs[ik]['ports'].append((p, g.w()))
  # planted children
  names_in_use = {n for n, _ in top['ports']} | {n for n, _ in top['wires']} | {n for n, _, _ in top['ifcs']}
  kids = [(n, k, a) for n, k, a in top['kids'] if n not in kid_plans]
  for kname in kid_plans:
    if kname in names_in_use: continue
    kids.append((kname, None, rng.choice([None, None, 2])))
  top['kids'] = []
  for kname, _, arr in kids:
    pp = [p[0] for p in kid_plans.get(kname, []) if len(p) == 1]
    pi = [p[0] for p in kid_plans.get(kname, []) if len(p) == 2]
    ck = g.mk_comp(False, pp, [x for x in pi if x not in pp])
    for iname, ik, _ in g.comps[ck]['ifcs']:
      for p in kid_plans.get(kname, []):
        if len(p) == 2 and p[0] == iname and p[1] not in [q for q, _ in g.ifcs[ik]['ports']] + [q for q, _ in g.ifcs[ik]['subs']]:
          g.ifcs[ik]['ports'].append((p[1], g.w()))
    top['kids'].append((kname, ck, arr))
  return g, key

def flat_source(g, topkey):
  u = g.u
  L = ['from pymtl3 import *', '']
  for key, fields in g.structs.items():
    L.append(f'{key} = mk_bitstruct( "{key}", {{ ' + ', '.join(f'"{n}": Bits{w}' for n, w in fields) + ' } )')
  for key, d in g.ifcs.items():           # created innermost first (mk_ifc registers the inner class later, so sort by use)
    pass
  done = set()
  def emit_ifc(key):
    if key in done: return
    d = g.ifcs[key]
    for _, sk in d['subs']: emit_ifc(sk)
    done.add(key)
    L.append(f'class {key}( Interface ):\n  def construct( s ):')
    for n, w in d['ports']: L.append(f'    s.{n} = InPort( {w} )')
    for n, sk in d['subs']: L.append(f'    s.{n} = {sk}()')
  for key in g.ifcs: emit_ifc(key)
  def ptype_expr(t):
    if t[0] == 'vec': return f'InPort( {t[1]} )'
    if t[0] == 'arr': return f'[ InPort( {t[2]} ) for _ in range( {t[1]} ) ]'
    return f'InPort( {t[1]} )'
  conns = []
  def emit_comp(key):
    c = g.comps[key]
    L.append(f'class {key}( Component ):\n  def construct( s ):')
    for n, t in c['ports']: L.append(f'    s.{n} = {ptype_expr(t)}')
    for n, w in c['wires']: L.append(f'    s.{n} = Wire( {w} )')
    for n, ik, arr in c['ifcs']:
      L.append(f'    s.{n} = {ik}()' if arr is None else f'    s.{n} = [ {ik}() for _ in range( {arr} ) ]')
    for n, ck, arr in c['kids']:
      L.append(f'    s.{n} = {ck}()' if arr is None else f'    s.{n} = [ {ck}() for _ in range( {arr} ) ]')
    if not (c['ports'] or c['wires'] or c['ifcs'] or c['kids']): L.append('    pass')
  for key in g.comps:
    if key != topkey: emit_comp(key)
  emit_comp(topkey)
  # connections: fresh, well-formed top-level ports drive some vector ports of the children
  top = g.comps[topkey]
  q = 0
  for n, ck, arr in top['kids']:
    for idx in ([None] if arr is None else range(arr)):
      base = f's.{n}' if idx is None else f's.{n}[{idx}]'
      kc = g.comps[ck]
      targets = [(f'{base}.{p}', t[1]) for p, t in kc['ports'] if t[0] == 'vec']
      targets += [(f'{base}.{p}[0]', t[2]) for p, t in kc['ports'] if t[0] == 'arr']
      for iname, ik, _ in kc['ifcs']:
        targets += [(f'{base}.{iname}.{p}', w) for p, w in g.ifcs[ik]['ports']]
      for expr, w in targets:
        if g.rng.random() < 0.5:
          L.append(f'    s.zq{q} = InPort( {w} ); {expr} //= s.zq{q}'); q += 1
  L.append(f'def make_top():\n  return {topkey}()\n')
  return '\n'.join(L), q

def comp_paths(g, key, backend, nq=0):
  """[(path, what)] of every identifier declared in the scope of the module of component `key`, as the backends derive
  them from the hardware objects (written from the emitted text of both backends, see the module docstring)"""
  c = g.comps[key]
  yo = backend == 'yosys'
  out = []
  def port_paths(prefix, t, what, whole_wire=True, elem=True):
    # a port / port-like signal below `prefix`
    if t[0] == 'vec' or not yo:
      out.append((prefix, what)); return
    if t[0] == 'arr':
      if whole_wire: out.append((prefix, what + ' (list wire)'))
      if elem: out.extend((prefix + [i], what + f'[{i}]') for i in range(t[1]))
    else:
      if whole_wire: out.append((prefix, what + ' (packed wire)'))
      out.extend((prefix + [f], what + '.' + f) for f, _ in g.structs[t[1]])
  def ifc_paths(prefix, ik, what, listed=None):
    d = g.ifcs[ik]
    for p, w in d['ports']:
      if listed is None: out.append((prefix + [p], f'{what}.{p}'))
      else:
        if yo:
          out.append((prefix + [p], f'{what}[*].{p} (list wire)'))
          out.extend((prefix + [i, p], f'{what}[{i}].{p}') for i in range(listed))
        else: out.append((prefix + [p], f'{what}[*].{p}'))
    for sname, sk in d['subs']:
      ifc_paths(prefix + [sname], sk, f'{what}.{sname}', listed)
  for n in ['clk', 'reset']: out.append(([n], 's.' + n))
  for n, t in c['ports']: port_paths([n], t, 's.' + n)
  for i in range(nq): out.append(([f'zq{i}'], f's.zq{i}'))
  for n, w in c['wires']: out.append(([n], 's.' + n))
  for n, ik, arr in c['ifcs']: ifc_paths([n], ik, 's.' + n, arr)
  for n, ck, arr in c['kids']:
    kc = g.comps[ck]
    kports = [('clk', ('vec', 1)), ('reset', ('vec', 1))] + kc['ports']
    if arr is None:
      out.append(([n], f's.{n} (instance)'))
      for p, t in kports: port_paths([n, p], t, f's.{n}.{p}')
      for iname, ik, _ in kc['ifcs']: ifc_paths([n, iname], ik, f's.{n}.{iname}')
    else:
      for i in range(arr): out.append(([n, i], f's.{n}[{i}] (instance)'))
      # the wires shared by the list (one unpacked dimension per list)
      for p, t in kports:
        if yo and t[0] == 'struct':
          out.append(([n, p], f's.{n}[*].{p} (list wire)'))
          out.extend(([n, p, f], f's.{n}[*].{p}.{f} (list wire)') for f, _ in g.structs[t[1]])
        else: out.append(([n, p], f's.{n}[*].{p}' + (' (list wire)' if yo else '')))
      for iname, ik, _ in kc['ifcs']: ifc_paths([n, iname], ik, f's.{n}[*].{iname}')
      if yo:
        for i in range(arr):
          for p, t in kports: port_paths([n, i, p], t, f's.{n}[{i}].{p}', whole_wire=False)
          for iname, ik, _ in kc['ifcs']: ifc_paths([n, i, iname], ik, f's.{n}[{i}].{iname}')
  return out

def flat_design(rng, uid, adversarial):
  g, topkey = build_flat(rng, uid, adversarial)
  src, nq = flat_source(g, topkey)
  return {'uid': f'f{uid}', 'module': f'c13_f{uid}', 'source': src, 'gen': g, 'top': topkey, 'nq': nq,
          'adversarial': adversarial}

# ------------------------------------------------------------------------------ text oracles

def module_decls(m, typedef_width):
  """{identifier: [(width, dims)]} of every port / net declaration of a scanned module"""
  decl = {}
  for p, info in m['portinfo'].items(): decl.setdefault(p, []).append(tuple(info))
  lines = m['text'].split('\n')
  depth = 0
  for raw in lines[1:]:
    line = c13_scan.strip_comment(raw).strip()
    if not line.endswith(';') or line.startswith('assign') or '=' in line: continue
    first = re.split(r'[\s\[]', line, 1)[0]
    if first in c13_scan.DECL_WORDS or first in typedef_width:
      info = c13_scan._port_info(line[:-1], typedef_width)
      if info: decl.setdefault(info[0], []).append((info[1], info[2]))
  return decl

INST_CONN = re.compile(r'^\.\s*(\S+?)\s*\(\s*(.*?)\s*\)\s*,?$')

def instance_conns(m):
  """[(module, instance, [(port, expr)])] of a scanned module"""
  out = []
  lines = [c13_scan.strip_comment(l).strip() for l in m['text'].split('\n')]
  i = 0
  while i < len(lines):
    w = lines[i].split()
    if len(w) == 2 and i + 1 < len(lines) and lines[i + 1] == '(' and (w[0], w[1]) in m['insts']:
      conns, j = [], i + 2
      while j < len(lines) and lines[j] != ');':
        mm = INST_CONN.match(lines[j])
        if mm: conns.append((mm.group(1), mm.group(2)))
        j += 1
      out.append((w[0], w[1], conns)); i = j
    i += 1
  return out

def connection_problems(tab):
  """direct oracle: every `.port( wire[idx].. )` of an instance names a declared wire, and every declaration of that wire
  has, after the indices, the width of that port of the instantiated module"""
  mods = {m['name']: m for m in tab['modules']}
  bad = []
  for m in tab['modules']:
    decl = module_decls(m, tab['typedef_width'])
    for mod, inst, conns in instance_conns(m):
      if mod not in mods: continue
      pdecl = mods[mod]['portinfo']
      for port, expr in conns:
        mm = re.fullmatch(r'([A-Za-z_][A-Za-z0-9_$]*)((?:\[\d+\])*)', expr)
        if not mm: continue                                 # an expression this oracle does not read
        wire, nidx = mm.group(1), mm.group(2).count('[')
        if wire not in decl:
          bad.append(('instance-port-undeclared-wire', m['name'], inst, port, wire, None, None)); continue
        if port not in pdecl or pdecl[port][0] is None: continue
        want = (pdecl[port][0], list(pdecl[port][1] or []))
        for w, dims in decl[wire]:
          if w is None: continue
          got = (w, list(dims or [])[nidx:])
          if got != want:
            bad.append(('instance-port-width', m['name'], inst, port, wire, want, got))
  return bad

# ------------------------------------------------------------------------------ the flat stream

def translate_design(ck, d, backend):
  mod = importlib.import_module(d['module'])
  return c13_worker.translate(mod.make_top, backend, os.path.join(ck.workdir, 'out', 'mangle', str(d['uid']), backend),
                              getattr(mod, 'pre_translate', None))

def write_module(ck, name, src):
  dd = os.path.join(ck.workdir, 'designs')
  os.makedirs(dd, exist_ok=True)
  with open(os.path.join(dd, name + '.py'), 'w') as f: f.write(src)
  c13_worker.setup_path(dd)
  importlib.invalidate_caches()

REFUSAL_WORDS = ('same name', 'same identifier', 'same module name', 'get the same', 'same typedef')

def is_refusal(e):
  s = str(e)
  return any(w in s for w in REFUSAL_WORDS)

def check_flat(ck, d, reqs):
  g, topkey = d['gen'], d['top']
  case0 = {'design': d['uid'], 'stream': 'flat-identifiers', 'adversarial': d['adversarial'], 'source': d['source']}
  names = sorted({n for c in g.comps.values() for grp in (c['ports'], c['wires'], c['ifcs'], c['kids']) for n, *_ in grp} |
                 {n for i in g.ifcs.values() for n, _ in i['ports'] + i['subs']} | {n for fs in g.structs.values() for n, _ in fs})
  all_ok = all(ok_name(n) for n in names)
  def collisions(paths_by_key):
    # Python restatement of the scheme: which identifiers do two different objects (paths) meet on
    coll = {}
    for key, paths in paths_by_key.items():
      seen = {}
      for p, what in paths: seen.setdefault(py_flat(p), {}).setdefault(tuple(p), what)
      for ident, whats in seen.items():
        if len(whats) > 1: coll[(key, ident)] = sorted(whats.values())
    return coll
  expect_by = {b: {key: comp_paths(g, key, b, d['nq'] if key == topkey else 0) for key in g.comps} for b in c13_worker.BACKENDS}
  # a refusal is justified when the objects collide under the flattening of SOME backend (one rule for both backends)
  any_coll = collisions({key: [x for b in c13_worker.BACKENDS for x in expect_by[b][key]] for key in g.comps})
  for backend in c13_worker.BACKENDS:
    case = dict(case0, backend=backend)
    expect = expect_by[backend]
    py_coll = collisions(expect)
    try:
      top, text = translate_design(ck, d, backend)
    except Exception as e:
      ck.hist('mangle:flat', f'{backend}:refused' if is_refusal(e) else f'{backend}:{type(e).__name__}')
      ck.count(dict(design=d['uid'], backend=backend, refused=True), nontrivial=bool(py_coll))
      if is_refusal(e) and any_coll and not all_ok: continue       # refused, and rightly so
      if is_refusal(e):
        ck.violation('legal-design-refused', {'finding': 'distinct-objects-one-identifier'}, case,
                     {'error': f'{type(e).__name__}: {str(e).strip()[:400]}',
                      'oracle': 'no two hardware objects of a module of this design have the same "__"-joined name, so the design must translate'})
        continue
      raise InfraError(f'flat design {d["uid"]} is not translatable by {backend}: {type(e).__name__}: {str(e)[:400]}\n{d["source"][:2500]}')
    try:
      tab = c13_scan.scan(text)
      if tab['unknown']: raise c13_scan.ScanError(f'line {tab["unknown"][0]} not understood')
    except c13_scan.ScanError as e:
      raise InfraError(f'scanner: flat design {d["uid"]} ({backend}): {e}')
    scanned = {m['name']: m for m in tab['modules']}
    # the module every component class of the design is emitted under (the translator's own table; one class = one module here)
    chosen = top.get_metadata(c13_worker.backend_pass(backend).translator).structural.component_unique_name
    mod_of = {type(c).__name__: n for c, n in chosen.items()}
    key_of = {n: k for k, n in mod_of.items()}
    # ---- direct oracle 1: every identifier declared once
    dups = [(k, w) for k, w in c13_scan.direct_wf(tab, ck.reserved)]
    labelled = False
    for kind, where in dups[:4]:
      modname, _, ident = where.partition(':')
      key = key_of.get(modname, modname)
      explained = kind == 'duplicate-identifier' and (key, ident) in py_coll and not all_ok
      labelled |= explained
      ck.violation('illegal-identifier' if kind.startswith('illegal') else kind,
                   {'finding': FLAT_FINDING if explained else 'unlabelled'}, case,
                   {'what': kind, 'module': modname, 'identifier': ident, 'objects': py_coll.get((key, ident)),
                    'declarations': [l.strip() for l in scanned.get(modname, {'text': ''})['text'].split('\n')
                                     if re.search(r'(?<![A-Za-z0-9_$])' + re.escape(ident) + r'(?![A-Za-z0-9_$])', c13_scan.strip_comment(l))
                                     and not c13_scan.strip_comment(l).strip().startswith(('assign', '.'))][:6],
                    'oracle': 'every identifier of a module scope is declared once'})
    # ---- direct oracle 2: instance port connections
    for what, modname, inst, port, wire, want, got in connection_problems(tab)[:3]:
      key = key_of.get(modname, modname)
      if (key, wire) in py_coll and not all_ok: continue          # the doubly declared wire reported above
      ck.violation(what, {'finding': 'unlabelled'}, case,
                   {'module': modname, 'instance': inst, 'port': port, 'wire': wire, 'port_width_dims': want, 'wire_width_dims': got,
                    'oracle': 'a port of an instance is connected to a declared wire of the width of that port'})
    ck.hist('mangle:flat', f'{backend}:' + ('collision' if dups else 'clean') + (':adversarial' if d['adversarial'] else ':wellformed'))
    ck.count(dict(design=d['uid'], src=hashlib.sha256(d['source'].encode()).hexdigest()[:16], backend=backend),
             nontrivial=bool(dups) or len(expect[topkey]) >= 8)
    # ---- model: identifiers of every module, collisions, well-formedness
    for key, paths in expect.items():
      m = scanned.get(mod_of.get(key))
      if m is None:
        if key in mod_of: ck.disagreement('module of a component≈modules of the text', dict(case, module=key), mod_of[key], sorted(scanned))
        continue                                   # (a class without an instance: a child slot that was not generated)
      reqs.append((leanio.line('names', 'flat', [seg_sexp(p) for p, _ in paths]),
                   ('flat', dict(case, module=key), sorted(m['ids']), sorted(py_flat(p) for p, _ in paths),
                    sorted({i for (k, i) in py_coll if k == key}), all(ok_name(str(s)) for p, _ in paths for s in p if not isinstance(s, int)))))

def eval_reqs(ck, reqs):
  out = ck.drv('names').batch([l for l, _ in reqs])
  for (_, meta), rep in zip(reqs, out):
    rep = leanio.parse_sexp(rep)
    if meta[0] == 'flat':
      _, case, scanned_ids, py_ids, py_coll, py_ok = meta
      ids, coll, okv = sorted(unS(x) for x in rep[0]), sorted(unS(x) for x in rep[1]), rep[2] == '1'
      if ids != scanned_ids:
        ck.disagreement('flatId(paths of the design)≈identifiers declared in the emitted module', case,
                        {'only_model': sorted(set(ids) - set(scanned_ids)), 'count_differs': sorted({x for x in ids if ids.count(x) != scanned_ids.count(x)})[:6]},
                        {'only_text': sorted(set(scanned_ids) - set(ids))})
      if ids != py_ids or coll != py_coll or okv != py_ok:
        ck.disagreement('flatId / flatCollisions / okName≈Python restatement', case, {'ids': ids[:8], 'collisions': coll, 'ok': okv},
                        {'ids': py_ids[:8], 'collisions': py_coll, 'ok': py_ok})
      if okv and coll:
        ck.disagreement('flatIds_nodup: well-formed names and a collision', case, coll, None)
    elif meta[0] == 'okname':
      _, name = meta
      if (rep[0] == '1') != ok_name(name):
        ck.disagreement('okName≈Python restatement', {'name': name}, rep[0], ok_name(name))

# ============================================================================== struct types

def t_layout(t):
  """canonical layout of a type description ('vec', n) | ('arr', dims, sub) | ('struct', cls, [(field, t)])"""
  if t[0] == 'vec': return ('vec', t[1])
  if t[0] == 'arr': return ('arr', tuple(t[1]), t_layout(t[2]))
  return ('struct', tuple((f, t_layout(x)) for f, x in t[2]))

def t_py_name(t, blake):
  """independent restatement of Struct.get_full_name / get_name on a type description"""
  def full(t):
    if t[0] == 'vec': return str(t[1])
    if t[0] == 'arr': return full(t[2]) + 'x' + 'x'.join(map(str, t[1]))
    return t[1] + '__' + fstr(t)
  def fstr(t): return '__'.join(f'{f}_{full(x)}' for f, x in t[2])
  f = full(t)
  return f if len(f) < 64 else t[1] + '__' + blake(fstr(t))

def t_expr(t, decls, memo):
  """Python expression of the type; bitstruct classes are appended to `decls` as mk_bitstruct assignments"""
  if t[0] == 'vec': return f'Bits{t[1]}'
  if t[0] == 'arr':
    e = t_expr(t[2], decls, memo)
    for n in reversed(t[1]): e = '[ ' + ', '.join([e] * n) + ' ]'
    return e
  key = json.dumps(t)
  if key not in memo:
    fields = ', '.join(f'{f!r}: {t_expr(x, decls, memo)}' for f, x in t[2])
    memo[key] = f'T{len(memo)}'
    decls.append(f'{memo[key]} = mk_bitstruct( {t[1]!r}, {{ {fields} }} )')
  return memo[key]

def t_sexp(t):
  if t[0] == 'vec': return ['vec', t[1]]
  if t[0] == 'arr': return ['arr', list(t[1]), t_sexp(t[2])]
  return ['struct', S(t[1]), [[S(f), t_sexp(x)] for f, x in t[2]]]

def t_flat(t):
  return all(ok_name(f) and (x[0] == 'vec' or (x[0] == 'arr' and x[2][0] == 'vec' and len(x[1]) > 0)) for f, x in t[2]) and len(t[2]) > 0

def t_width(t):
  if t[0] == 'vec': return t[1]
  if t[0] == 'arr':
    n = 1
    for k in t[1]: n *= k
    return n * t_width(t[2])
  return sum(t_width(x) for _, x in t[2])

def t_leafwidths(t):
  if t[0] == 'vec': return [t[1]]
  if t[0] == 'arr':
    n = 1
    for k in t[1]: n *= k
    return t_leafwidths(t[2]) * n
  return [w for _, x in t[2] for w in t_leafwidths(x)]

def t_leaves(t, path=''):
  """[(python attribute path below a signal of type t, width)] of the vectors of the type (element 0 / the last element of
  every list)"""
  if t[0] == 'vec': return [(path, t[1])]
  if t[0] == 'arr':
    out = t_leaves(t[2], path + ''.join('[0]' for _ in t[1]))
    if any(n > 1 for n in t[1]): out += t_leaves(t[2], path + ''.join(f'[{n-1}]' for n in t[1]))
    return out
  return [l for f, x in t[2] for l in t_leaves(x, path + '.' + f)]

V = lambda n: ('vec', n)
# the pairs of PV.C13.structName_collision_witnesses (1)-(5) and struct_collision_changes_layout (6), literally
STRUCT_WITNESSES = [
  ('nesting', ('struct', 'Outer', [('i', ('struct', 'Inner', [('x', V(8)), ('y', V(8))])), ('z', V(4))]),
              ('struct', 'Outer', [('i', ('struct', 'Inner', [('x', V(8))])), ('y', V(8)), ('z', V(4))])),
  ('field-vs-class-underscore', ('struct', 'C', [('f', ('struct', 'My_S', [('g', V(8))]))]),
                                ('struct', 'C', [('f_My', ('struct', 'S', [('g', V(8))]))])),
  ('dunder-field', ('struct', 'S', [('a', V(4)), ('b', V(8))]), ('struct', 'S', [('a_4__b', V(8))])),
  ('dunder-class', ('struct', 'A', [('b', V(8)), ('c', V(4))]), ('struct', 'A__b_8', [('c', V(4))])),
  ('list-of-struct', ('struct', 'C', [('f', ('arr', [2], ('struct', 'D', [('g', V(8))])))]),
                     ('struct', 'C', [('f', ('struct', 'D', [('g', ('arr', [2], V(8)))]))])),
  ('class-ending-in-width', ('struct', 'C', [('f', ('struct', 'My_8', [('g', V(4))]))]), ('struct', 'C', [('f_My', V(8)), ('g', V(4))])),
]
# the pairs of PV.C13.flatId_collision_witnesses that can be written as a design (a name starting with a digit cannot)
FLAT_WITNESS_SRC = {
  'dunder-name': '''
class X( Component ):
  def construct( s ):
    s.b__c = InPort( 8 )
class Y( Component ):
  def construct( s ):
    s.c = InPort( 4 )
class Top( Component ):
  def construct( s ):
    s.i1 = InPort( 8 ); s.i2 = InPort( 4 )
    s.a = X(); s.a__b = Y()
    s.a.b__c //= s.i1; s.a__b.c //= s.i2
''',
  'index-name': '''
class Y( Component ):
  def construct( s ):
    s.c = InPort( 4 )
class Z( Component ):
  def construct( s ):
    s.c = InPort( 8 )
class Top( Component ):
  def construct( s ):
    s.i1 = InPort( 4 ); s.i2 = InPort( 8 )
    s.a = [ Y() for _ in range( 2 ) ]; s.a__0 = Z()
    s.a[0].c //= s.i1; s.a[1].c //= s.i1; s.a__0.c //= s.i2
''',
  'leading-underscore-field': '''
S1 = mk_bitstruct( 'S1', { 'b': Bits8 } )
S2 = mk_bitstruct( 'S2', { '_b': Bits4 } )
class Top( Component ):
  def construct( s ):
    s.a_ = InPort( S1 ); s.a = InPort( S2 )
''',
}
FLAT_WITNESS_PATHS = {
  'dunder-name': ([['a', 'b__c'], ['a__b', 'c']], ('sv', 'yosys')),
  'index-name': ([['a', 0], ['a__0']], ('sv', 'yosys')),
  'leading-underscore-field': ([['a_', 'b'], ['a', '_b']], ('yosys',)),       # struct fields are flattened by the Yosys backend only
}

def gen_type(rng, depth=0, flat=False):
  """a random struct type with well-formed names"""
  cls = rng.choice(['Pt', 'Msg', 'Req', 'Hdr_t', 'My_S', 'Flit', 'Cfg_8b', 'A_b'])
  fs = []
  for n in rng.sample(['a', 'b', 'x', 'y', 'z', 'type_', 'len_', 'opq', 'f_My', 'data', 'a_4', 'g'], rng.choice([1, 2, 3, 4])):
    r = rng.random()
    if r < 0.55 or (flat and r < 0.8): fs.append((n, V(rng.choice([1, 3, 4, 8, 16]))))
    elif r < 0.8 or flat: fs.append((n, ('arr', [rng.choice([1, 2, 3])] + ([2] if rng.random() < 0.2 else []), V(rng.choice([2, 4, 8])))))
    elif depth < 2:
      sub = gen_type(rng, depth + 1)
      fs.append((n, sub if rng.random() < 0.8 else ('arr', [2], sub)))
    else: fs.append((n, V(4)))
  return ('struct', cls, fs)

PLANT_KINDS = ['nesting', 'field-vs-class-underscore', 'dunder-field', 'dunder-class', 'list-of-struct', 'class-ending-in-width',
               'hashed-nesting']
NEAR_KINDS = ['single-underscore-field', 'single-underscore-class', 'trailing-underscore', 'digits', 'list-vs-width', 'field-order',
              'width-only', 'dims-order', 'class-vs-field-underscore']

def plant_pair(rng, kind):
  """two different struct types that the naming scheme cannot tell apart"""
  long_ = kind == 'hashed-nesting'
  fn = (lambda x: x + '_long_field_name_number_' + x) if long_ else (lambda x: x)
  w = lambda: rng.choice([2, 4, 8])
  cls, icls = rng.choice(['Outer', 'Pkt', 'M_t']), rng.choice(['Inner', 'Hd', 'I_t'])
  if kind in ('nesting', 'hashed-nesting'):
    inner = [(fn(n), V(w())) for n in rng.sample(['x', 'y', 'u', 'v'], rng.choice([2, 3]))]
    after = [(fn(n), V(w())) for n in rng.sample(['z', 'k'], rng.choice([0, 1, 2]))]
    k = rng.randrange(1, len(inner))
    pre = [(fn('p'), V(w()))] if rng.random() < 0.4 else []
    A = ('struct', cls, pre + [('i', ('struct', icls, inner))] + after)
    B = ('struct', cls, pre + [('i', ('struct', icls, inner[:k]))] + inner[k:] + after)
  elif kind == 'field-vs-class-underscore':
    x, y = rng.choice([('My', 'S'), ('Mem', 'Req'), ('a', 'T')])
    sub = [('g', V(w()))]
    A = ('struct', cls, [('f', ('struct', f'{x}_{y}', sub))]); B = ('struct', cls, [(f'f_{x}', ('struct', y, sub))])
  elif kind == 'dunder-field':
    wa, wb = w(), w()
    A = ('struct', cls, [('a', V(wa)), ('b', V(wb))]); B = ('struct', cls, [(f'a_{wa}__b', V(wb))])
  elif kind == 'dunder-class':
    wa, wb = w(), w()
    A = ('struct', cls, [('b', V(wa)), ('c', V(wb))]); B = ('struct', f'{cls}__b_{wa}', [('c', V(wb))])
  elif kind == 'list-of-struct':
    n, wg = rng.choice([2, 3]), w()
    A = ('struct', cls, [('f', ('arr', [n], ('struct', icls, [('g', V(wg))])))])
    B = ('struct', cls, [('f', ('struct', icls, [('g', ('arr', [n], V(wg)))]))])
  else:
    wa, wg = w(), w()
    A = ('struct', cls, [('f', ('struct', f'My_{wa}', [('g', V(wg))]))]); B = ('struct', cls, [('f_My', V(wa)), ('g', V(wg))])
  return kind, A, B

def near_pair(rng, kind):
  """two DIFFERENT struct types without nested structs and with well-formed names that a weaker naming scheme (a single `_`
  as separator, a dropped separator, digits run together) would confuse: structFullName_inj says their names differ"""
  w = lambda: rng.choice([1, 2, 4, 8])
  cls = rng.choice(['S', 'Pkt', 'M_t', 'Req_2'])
  wa, wb = w(), w()
  if kind == 'single-underscore-field': A, B = [('a', V(wa)), ('b', V(wb))], [(f'a_{wa}_b', V(wb))]
  elif kind == 'single-underscore-class': return kind, ('struct', cls, [('b', V(wa)), ('c', V(wb))]), ('struct', f'{cls}_b_{wa}', [('c', V(wb))])
  elif kind == 'class-vs-field-underscore': return kind, ('struct', cls, [('b_x', V(wa))]), ('struct', f'{cls}_b', [('x', V(wa))])
  elif kind == 'trailing-underscore': A, B = [('a_', V(wa)), ('b', V(wb))], [('a', V(wa)), ('b', V(wb))]
  elif kind == 'digits': A, B = [('a', V(10 * wa + wb))], [(f'a_{wa}', V(wb))]
  elif kind == 'list-vs-width': A, B = [('a', ('arr', [2], V(wa)))], [('a', V(10 * wa + 2)), ]
  elif kind == 'field-order': A, B = [('a', V(wa)), ('b', V(wa))], [('b', V(wa)), ('a', V(wa))]
  elif kind == 'width-only': A, B = [('a', V(wa)), ('b', V(wb))], [('a', V(wa)), ('b', V(wb + 1))]
  else: A, B = [('a', ('arr', [2, 3], V(wa)))], [('a', ('arr', [3, 2], V(wa)))]
  return kind, ('struct', cls, A), ('struct', cls, B)

def struct_design(uid, A, B, label, with_children=True, pick=None):
  decls, memo = [], {}
  ea, eb = t_expr(A, decls, memo), t_expr(B, decls, memo)
  pick = pick or (lambda ls: ls[-1])
  (pa, wa), (pb, wb) = pick(t_leaves(A)), pick(t_leaves(B))
  L = ['from pymtl3 import *'] + decls
  L += [f'TA = {ea}', f'TB = {eb}',
        f'class P_{uid}( Component ):\n  def construct( s, T ):\n    s.in_ = InPort( T ); s.out = OutPort( T )\n    s.out //= s.in_',
        f'class Top_{uid}( Component ):\n  def construct( s ):',
        f'    s.i1 = InPort( TA ); s.i2 = InPort( TB ); s.o1 = OutPort( TA ); s.o2 = OutPort( TB )',
        f'    s.l1 = OutPort( {wa} ); s.l2 = OutPort( {wb} )',
        f'    s.l1 //= s.i1{pa}; s.l2 //= s.i2{pb}']
  if with_children:
    L += ['    s.ka = P_%s( TA ); s.kb = P_%s( TB )' % (uid, uid),
          '    s.ka.in_ //= s.i1; s.kb.in_ //= s.i2; s.o1 //= s.ka.out; s.o2 //= s.kb.out']
  else:
    L += ['    s.o1 //= s.i1; s.o2 //= s.i2']
  L.append(f'def make_top():\n  return Top_{uid}()\n')
  return {'uid': f's{uid}', 'module': f'c13_s{uid}', 'source': '\n'.join(L), 'A': A, 'B': B, 'label': label, 'children': with_children}

TYPEDEF = re.compile(r'typedef\s+struct\s+packed\s*\{(.*?)\}\s*(\S+?)\s*;', re.S)

def text_typedefs(text):
  """{name: [(field, base type text, [packed dims])]} of the typedefs of a SystemVerilog text"""
  out = {}
  code = '\n'.join(c13_scan.strip_comment(l) for l in c13_scan.preprocess(text).split('\n'))
  for body, name in TYPEDEF.findall(code):
    fields = []
    for fl in body.split(';'):
      fl = fl.strip()
      if not fl: continue
      mm = re.match(r'^(\S+?)\s*((?:\[[^\]]*\]\s*)*)\s*([A-Za-z_][A-Za-z0-9_$]*)$', fl)
      if not mm: raise InfraError(f'typedef field not understood: {fl!r}')
      dims = [c13_scan._range_size(r) for r in re.findall(r'\[[^\]]*\]', mm.group(2))]
      fields.append((mm.group(3), mm.group(1), dims))
    out.setdefault(name, []).append(fields)
  return out

def text_layout(tds, base, dims):
  """canonical layout (as t_layout) of a declaration `base dims` of the text"""
  if base in ('logic', 'bit', 'reg', 'wire'):
    if not dims: return ('vec', 1)
    inner = ('vec', dims[-1])
    return ('arr', tuple(dims[:-1]), inner) if len(dims) > 1 else inner
  if base not in tds: return ('undeclared-type', base)
  lay = ('struct', tuple((f, text_layout(tds, b, d)) for f, b, d in tds[base][0]))
  return ('arr', tuple(dims), lay) if dims else lay

def field_of(layout, name):
  while layout[0] == 'arr': layout = layout[2]
  if layout[0] != 'struct': return None
  return dict(layout[1]).get(name)

def check_struct_design(ck, d, blake, reqs):
  A, B = d['A'], d['B']
  na, nb = t_py_name(A, blake), t_py_name(B, blake)
  inherent = na == nb and t_layout(A) != t_layout(B)              # the naming scheme itself cannot tell the two types apart
  case0 = {'design': d['uid'], 'stream': 'struct-names', 'label': d['label'], 'source': d['source'],
           'types': [json.dumps(A), json.dumps(B)], 'children': d['children']}
  from pymtl3.passes.rtlir.rtype.RTLIRDataType import get_rtlir_dtype
  mod = importlib.import_module(d['module'])
  ra, rb = get_rtlir_dtype(mod.TA()), get_rtlir_dtype(mod.TB())
  real = [(ra.get_full_name(), ra.get_name()), (rb.get_full_name(), rb.get_name())]
  for t, (rf, rn) in zip((A, B), real):
    reqs.append((None, ('swf', dict(case0, type=json.dumps(t)), t, rf, rn)))
  ck.hist('mangle:struct', d['label'] + (':names-collide' if real[0][1] == real[1][1] and t_layout(A) != t_layout(B) else ':names-differ'))
  if inherent:       # observed, not proved: does a collision at least keep the packed layout (the widths of the vectors, in order)?
    def names_of(t): return [t[1]] + [n for f, x in t[2] for n in [f] + (names_of(x) if x[0] == 'struct' else names_of(x[2]) if x[0] == 'arr' and x[2][0] == 'struct' else [])]
    wf = all(ok_name(n) for n in names_of(A) + names_of(B))
    ck.hist('mangle:collision-layout', ('well-formed-names' if wf else 'name-with-separator') + ':' +
            ('same-widths' if t_leafwidths(A) == t_leafwidths(B) else 'different-widths'))
  # direct oracle of structFullName_inj / structName_inj on the real name function
  if t_layout(A) != t_layout(B) and real[0][1] == real[1][1] and ok_name(A[1]) and ok_name(B[1]) and t_flat(A) and t_flat(B):
    ck.violation('name-collision', {'finding': 'wellformed-flat-structs-one-name'}, case0,
                 {'name': real[0][1], 'oracle': 'struct types without nested structs and with well-formed names that differ in layout get different names'})
  for backend in c13_worker.BACKENDS:
    case = dict(case0, backend=backend)
    try:
      top, text = translate_design(ck, d, backend)
    except Exception as e:
      ck.hist('mangle:struct-translation', f'{backend}:refused' if is_refusal(e) else f'{backend}:{type(e).__name__}')
      ck.count(dict(design=d['uid'], backend=backend, refused=True), nontrivial=inherent)
      if is_refusal(e) and inherent: continue
      if is_refusal(e):
        ck.violation('legal-design-refused', {'finding': 'distinct-struct-types-one-name'}, case,
                     {'error': f'{type(e).__name__}: {str(e).strip()[:400]}', 'names': [na, nb],
                      'oracle': 'the two struct types have different names under the naming scheme (or the same layout): the design must translate'})
        continue
      raise InfraError(f'struct design {d["uid"]} is not translatable by {backend}: {type(e).__name__}: {str(e)[:400]}\n{d["source"][:2500]}')
    try:
      tab = c13_scan.scan(text)
      if tab['unknown']: raise c13_scan.ScanError(f'line {tab["unknown"][0]} not understood')
    except c13_scan.ScanError as e:
      raise InfraError(f'scanner: struct design {d["uid"]} ({backend}): {e}')
    problems = []
    for kind, where in c13_scan.direct_wf(tab, ck.reserved)[:3]: problems.append({'what': kind, 'where': where})
    for p in connection_problems(tab)[:2]: problems.append({'what': p[0], 'module': p[1], 'instance': p[2], 'port': p[3], 'wire': p[4], 'want': p[5], 'got': p[6]})
    if backend == 'sv':
      tds = text_typedefs(text)
      for name, defs in tds.items():
        if len(defs) > 1: problems.append({'what': 'typedef-defined-twice', 'name': name})
      mods = {m['name']: m for m in tab['modules']}
      # the Python type of every struct-typed port of the top and of the two children
      names_chosen = top.get_metadata(c13_worker.backend_pass(backend).translator).structural.component_unique_name
      want = {names_chosen[top]: {'i1': A, 'o1': A, 'i2': B, 'o2': B}}
      if d['children']:
        for inst, t in ((top.ka, A), (top.kb, B)):
          want.setdefault(names_chosen[inst], {})
          for p in ('in_', 'out'): want[names_chosen[inst]].setdefault(p, []).append((repr(inst), t))
      decl_type = {}
      for mname, m in mods.items():
        for raw in m['text'].split('\n'):
          line = c13_scan.strip_comment(raw).strip().rstrip(',;').strip()
          mm = re.match(r'^(?:input|output|inout)?\s*(\S+?)\s*((?:\[[^\]]*\]\s*)*)\s*([A-Za-z_][A-Za-z0-9_$]*)\s*((?:\[[^\]]*\]\s*)*)$', line)
          if mm and (mm.group(1) in tds or mm.group(1) == 'logic'):
            dims = [c13_scan._range_size(r) for r in re.findall(r'\[[^\]]*\]', mm.group(2))]
            decl_type.setdefault((mname, mm.group(3)), []).append((mm.group(1), dims))
      for mname, ports in want.items():
        for p, ts in ports.items():
          for who, t in (ts if isinstance(ts, list) else [(f'Top.{p}', ts)]):
            for base, dims in decl_type.get((mname, p), []):
              got = text_layout(tds, base, dims)
              if got != t_layout(t):
                problems.append({'what': 'typedef-layout-differs-from-the-type-of-the-signal', 'module': mname, 'signal': p, 'of': who,
                                 'declared_as': base, 'typedef_layout': str(got)[:300], 'type_layout': str(t_layout(t))[:300]})
      # every x.f.g of an assign exists
      for mname, m in mods.items():
        for raw in m['text'].split('\n'):
          line = c13_scan.strip_comment(raw).strip()
          if not line.startswith('assign'): continue
          for chain in re.findall(r'[A-Za-z_][A-Za-z0-9_$]*(?:\[\d+\])*(?:\.[A-Za-z_][A-Za-z0-9_$]*(?:\[\d+\])*)+', line):
            parts = re.sub(r'\[\d+\]', '', chain).split('.')
            for base, dims in decl_type.get((mname, parts[0]), []):
              lay = text_layout(tds, base, dims)
              for f in parts[1:]:
                lay = field_of(lay, f) if lay else None
                if lay is None:
                  problems.append({'what': 'field-not-in-typedef', 'module': mname, 'expression': chain, 'field': f, 'declared_as': base,
                                   'line': line})
                  break
    # instances sharing a module name have identical bodies
    if d['children']:
      from . import c13
      tr, bodies = c13.instance_bodies(top, c13_worker.backend_pass(backend))
      if names_chosen_of(top, backend, top.ka) == names_chosen_of(top, backend, top.kb):
        ba, bb = (c13.code_of(bodies[x], 's') for x in (top.ka, top.kb))
        if ba != bb: problems.append({'what': 'one-module-name-two-bodies', 'module': names_chosen_of(top, backend, top.ka)})
    problems.sort(key=lambda p: p['what'] != 'field-not-in-typedef')             # the invalid text first
    if problems:
      ck.violation('typedef-name-alias', {'finding': STRUCT_FINDING if inherent else 'unlabelled'}, case,
                   {'types': [json.dumps(A), json.dumps(B)], 'names_by_the_scheme': [na, nb], 'real_names': [real[0][1], real[1][1]],
                    'problems': problems[:5],
                    'oracle': 'every typedef of the text has the layout of the type of every signal declared with it; every field of an '
                              'assign exists; identifiers are declared once; instance ports meet wires of their width'})
    ck.hist('mangle:struct-translation', f'{backend}:' + ('alias' if problems else 'clean'))
    ck.count(dict(design=d['uid'], src=hashlib.sha256(d['source'].encode()).hexdigest()[:16], backend=backend), nontrivial=True)

def names_chosen_of(top, backend, inst):
  return top.get_metadata(c13_worker.backend_pass(backend).translator).structural.component_unique_name[inst]

def eval_struct_reqs(ck, reqs, ask_hashed):
  builders = [(lambda h, t=meta[2]: leanio.line('names', 'swf', h, S(t[1]), t_sexp(t)[2])) for _, meta in reqs]
  replies = ask_hashed(ck, builders)
  for (_, meta), rep in zip(reqs, replies):
    _, case, t, real_full, real_name = meta
    full, name, okc, flat, widths = unS(rep[0]), unS(rep[1]), rep[2] == '1', rep[3] == '1', [int(x) for x in rep[4][0]]
    if (full, name) != (real_full, real_name):
      ck.disagreement('structName≈Struct.get_name', case, {'full': full, 'name': name}, {'full': real_full, 'name': real_name})
    if okc != ok_name(t[1]) or flat != t_flat(t) or widths != t_leafwidths(t):
      ck.disagreement('okName / flatStruct / leafWidths≈Python restatement', case, {'ok': okc, 'flat': flat, 'widths': widths},
                      {'ok': ok_name(t[1]), 'flat': t_flat(t), 'widths': t_leafwidths(t)})

# ============================================================================== component names

def comp_name_design(rng, uid, kind):
  k1, k2 = rng.sample(range(1, 9), 2)
  if kind == 'class-name-contains-separator':
    p, q = rng.choice([1, 2, 3]), rng.choice([4, 5])
    body = (f'class A_{uid}( Component ):\n  def construct( s, p, q ):\n    s.in_ = InPort( 8 ); s.out = OutPort( 8 )\n'
            f'    @update\n    def up():\n      s.out @= s.in_ + {k1}\n'
            f'class A_{uid}__p_{p}( Component ):\n  def construct( s, q ):\n    s.in_ = InPort( 8 ); s.out = OutPort( 8 )\n'
            f'    @update\n    def up():\n      s.out @= s.in_ + {k2}\n')
    ea, eb = f'A_{uid}( {p}, {q} )', f'A_{uid}__p_{p}( {q} )'
  else:
    body = (f'class A_{uid}( Component ):\n  def construct( s, p, q ):\n    s.in_ = InPort( 8 ); s.out = OutPort( 8 )\n'
            f'    k = {k1} if isinstance( p, str ) else {k2}\n'
            f'    @update\n    def up():\n      s.out @= s.in_ + k\n')
    ea, eb = f'A_{uid}( "1__q_2", 3 )', f'A_{uid}( 1, "2__q_3" )'
  src = ('from pymtl3 import *\n' + body +
         f'class Top_{uid}( Component ):\n  def construct( s ):\n    s.i = InPort( 8 ); s.o1 = OutPort( 8 ); s.o2 = OutPort( 8 )\n'
         f'    s.ka = {ea}; s.kb = {eb}\n    s.ka.in_ //= s.i; s.kb.in_ //= s.i; s.o1 //= s.ka.out; s.o2 //= s.kb.out\n'
         f'def make_top():\n  return Top_{uid}()\n')
  return {'uid': f'n{uid}', 'module': f'c13_n{uid}', 'source': src, 'kind': kind}

def check_comp_name_design(ck, d):
  """two DIFFERENT components (different hardware) whose module names coincide because a class name / a string parameter
  contains the separator: the translator must refuse, or keep them apart"""
  from . import c13
  case0 = {'design': d['uid'], 'stream': d['kind'], 'source': d['source']}
  for backend in c13_worker.BACKENDS:
    case = dict(case0, backend=backend)
    try:
      top, text = translate_design(ck, d, backend)
    except Exception as e:
      ck.hist('mangle:component-names', f'{d["kind"]}:{backend}:' + ('refused' if is_refusal(e) else type(e).__name__))
      ck.count(dict(design=d['uid'], backend=backend, refused=True), nontrivial=True)
      if is_refusal(e): continue
      raise InfraError(f'design {d["uid"]} is not translatable by {backend}: {type(e).__name__}: {str(e)[:400]}')
    P = c13_worker.backend_pass(backend)
    tr, bodies = c13.instance_bodies(top, P)
    na, nb = (tr.structural.component_unique_name[x] for x in (top.ka, top.kb))
    ck.hist('mangle:component-names', f'{d["kind"]}:{backend}:' + ('same-name' if na == nb else 'different-names'))
    ck.count(dict(design=d['uid'], backend=backend), nontrivial=True)
    if na == nb and c13.code_of(bodies[top.ka], 's') != c13.code_of(bodies[top.kb], 's'):
      ck.violation('module-name-alias', {'finding': 'unlabelled'}, case,
                   {'module': na, 'instances': ['s.ka', 's.kb'], 'oracle': 'instances that share a module name have the same body'})

# ============================================================================== entry point

def run_stream(ck, ask_hashed, blake):
  """called by c13.run after setup(ck)"""
  rng = ck.rng
  quick = ck.tier == 'quick'
  uid = [0]
  def nxt():
    uid[0] += 1
    return uid[0]
  # ---- (1) the witnesses of the Lean theorems, literally
  reqs = []
  for label, (paths, backends) in FLAT_WITNESS_PATHS.items():
    u = nxt()
    src = 'from pymtl3 import *\n' + FLAT_WITNESS_SRC[label].replace('Top', f'Top_{u}') + f'\ndef make_top():\n  return Top_{u}()\n'
    write_module(ck, f'c13_w{u}', src)
    case = {'design': f'w{u}', 'stream': 'witness:' + label, 'source': src}
    rep = leanio.parse_sexp(ck.drv('names').batch([leanio.line('names', 'flat', [seg_sexp(p) for p in paths])])[0])
    ids = [unS(x) for x in rep[0]]
    if len(set(ids)) != 1 or rep[2] != '0':
      ck.disagreement('flatId_collision_witnesses≈driver', case, ids, None)
    for backend in c13_worker.BACKENDS:
      d = {'uid': f'w{u}', 'module': f'c13_w{u}', 'source': src}
      try:
        top, text = translate_design(ck, d, backend)
      except Exception as e:
        ck.hist('mangle:witness', f'{label}:{backend}:' + ('refused' if is_refusal(e) else type(e).__name__))
        if is_refusal(e): continue                  # the objects collide under the flattening of at least one backend
        raise InfraError(f'witness {label} is not translatable by {backend}: {type(e).__name__}: {str(e)[:300]}')
      tab = c13_scan.scan(text)
      dup = [w for k, w in c13_scan.direct_wf(tab, ck.reserved) if k == 'duplicate-identifier']
      hit = [w for w in dup if w.partition(':')[2] == ids[0] or w.partition(':')[2].startswith(ids[0] + '__')]
      ck.hist('mangle:witness', f'{label}:{backend}:' + ('collision' if hit else 'clean'))
      ck.count({'design': f'w{u}', 'backend': backend, 'witness': label}, nontrivial=True)
      if backend in backends and not hit:
        ck.disagreement('witness of flatId_collision_witnesses replayed on the translator', dict(case, backend=backend),
                        {'identifier': ids[0], 'collides': True}, {'duplicates_in_text': dup})
      for w in dup[:2]:
        ck.violation('duplicate-identifier', {'finding': FLAT_FINDING if (w in hit and backend in backends) else 'unlabelled'},
                     dict(case, backend=backend), {'what': 'duplicate-identifier', 'where': w, 'paths': paths,
                                                   'oracle': 'every identifier of a module scope is declared once'})
  sreqs = []
  for label, A, B in STRUCT_WITNESSES:
    d = struct_design(nxt(), A, B, 'witness:' + label, with_children=True)
    write_module(ck, d['module'], d['source'])
    if t_py_name(A, blake) != t_py_name(B, blake):
      ck.disagreement('structName_collision_witnesses≈Python restatement', {'witness': label}, None, [t_py_name(A, blake), t_py_name(B, blake)])
    n0 = len(sreqs)
    check_struct_design(ck, d, blake, sreqs)
    if sreqs[n0][1][4] != sreqs[n0 + 1][1][4]:
      ck.disagreement('witness of structName_collision_witnesses replayed on get_rtlir_dtype', {'witness': label},
                      {'collides': True}, {'names': [sreqs[n0][1][4], sreqs[n0 + 1][1][4]]})
  # ---- (2) flat designs
  n_flat = 60 if quick else 400
  for i in range(n_flat):
    d = flat_design(rng, nxt(), adversarial=(i % 2 == 0))
    write_module(ck, d['module'], d['source'])
    check_flat(ck, d, reqs)
  for n in GOOD + BAD + ['_b', '0', '', 'a_', '_', '__', 'a__', 'x' * 3 + '_' * 3]:
    reqs.append((leanio.line('names', 'okname', S(n)), ('okname', n)))
  eval_reqs(ck, reqs)
  # ---- (3) struct types
  # every planted kind and every near-miss kind in every run, then random well-formed pairs
  plan = [('plant', k) for k in PLANT_KINDS * (2 if quick else 16)] + [('near', k) for k in NEAR_KINDS * (1 if quick else 8)]
  plan += [('random', None)] * (6 if quick else 60)
  for how, kind in plan:
    if how == 'plant': label, A, B = plant_pair(rng, kind)
    elif how == 'near':
      label, A, B = near_pair(rng, kind)
      label = 'near:' + label
    else:
      flat = rng.random() < 0.5
      A, B = gen_type(rng, flat=flat), gen_type(rng, flat=flat)
      if rng.random() < 0.2: B = json.loads(json.dumps(A))                       # the same layout built twice
      A, B = (json.loads(json.dumps(x)) for x in (A, B))
      A, B = tuplify(A), tuplify(B)
      label = 'benign-flat' if flat else 'benign-nested'
    d = struct_design(nxt(), A, B, label, with_children=rng.random() < 0.7, pick=rng.choice)
    write_module(ck, d['module'], d['source'])
    check_struct_design(ck, d, blake, sreqs)
  eval_struct_reqs(ck, sreqs, ask_hashed)
  # ---- (4) component names
  for kind in ('class-name-contains-separator', 'param-string-contains-separator'):
    for _ in range(1 if quick else 6):
      d = comp_name_design(rng, nxt(), kind)
      write_module(ck, d['module'], d['source'])
      check_comp_name_design(ck, d)

STREAM_PREFIXES = ('flat-identifiers', 'struct-names', 'witness:', 'class-name-contains-separator', 'param-string-contains-separator')

def replay_case(ck, case, ask_hashed, blake):
  """re-run one case of these streams from its stored source: a struct-names / component-names case goes through the same
  oracles again; a flat-identifiers / witness case is translated by both backends and the text oracles are printed"""
  src, stream = case['source'], case['stream']
  print(src)
  write_module(ck, 'c13_replay', src)
  d = {'uid': case['design'], 'module': 'c13_replay', 'source': src}
  if stream == 'struct-names':
    A, B = (tuplify(json.loads(x)) for x in case['types'])
    d.update(A=A, B=B, label=case['label'], children=case['children'])
    sreqs = []
    check_struct_design(ck, d, blake, sreqs)
    eval_struct_reqs(ck, sreqs, ask_hashed)
  elif stream in ('class-name-contains-separator', 'param-string-contains-separator'):
    d['kind'] = stream
    check_comp_name_design(ck, d)
  else:
    for backend in ([case['backend']] if case.get('backend') else c13_worker.BACKENDS):
      try:
        top, text = translate_design(ck, d, backend)
      except Exception as e:
        print(f'{backend}: translation refused: {type(e).__name__}: {str(e).strip()[:300]}'); continue
      tab = c13_scan.scan(text)
      for kind, where in c13_scan.direct_wf(tab, ck.reserved):
        modname, _, ident = where.partition(':')
        m = next((x for x in tab['modules'] if x['name'] == modname), None)
        decls = [l.strip() for l in (m['text'].split('\n') if m else [])
                 if re.search(r'(?<![A-Za-z0-9_$])' + re.escape(ident) + r'(?![A-Za-z0-9_$])', c13_scan.strip_comment(l))]
        ck.violation('illegal-identifier' if kind.startswith('illegal') else kind, {'finding': 'replay'}, dict(case, backend=backend),
                     {'what': kind, 'where': where, 'lines': decls[:8]})
      for p in connection_problems(tab):
        ck.violation(p[0], {'finding': 'replay'}, dict(case, backend=backend), {'module': p[1], 'instance': p[2], 'port': p[3], 'wire': p[4],
                                                                                'port_width_dims': p[5], 'wire_width_dims': p[6]})
  for v in ck.violations:
    print('VIOLATION', v.kind, json.dumps(v.signature), v.case.get('backend'), json.dumps(v.detail, default=str)[:1500])
  for b in ck.breaks:
    print('DISAGREEMENT', b['correspondence'], 'model:', str(b['model'])[:600], 'impl:', str(b['impl'])[:600])
  return 1 if (ck.violations or ck.breaks) else 0

def tuplify(t):
  if t[0] == 'vec': return ('vec', t[1])
  if t[0] == 'arr': return ('arr', list(t[1]), tuplify(t[2]))
  return ('struct', t[1], [(f, tuplify(x)) for f, x in t[2]])
