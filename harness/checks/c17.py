"""C17 — library queues are FIFOs with their advertised same-cycle behaviour.

proof:          lean/PymtlVerif/Props/C17.lean (models: Model/Queue.lean)
correspondence: every queue class of queues.py, stream/queues.py, enrdy_queues.py, valrdy_queues.py, cl_queues.py,
                simulated with DefaultPassGroup, vs `runCls` of Model/Queue.lean: per cycle ready/valid outputs,
                delivered message, count / num_free_entries / full
direct oracle:  c17_util.Oracle — a plain FIFO ledger of the observed handshakes with the kind's ready law
second stream:  c17_adapters.py — the same queue classes reached THROUGH the stdlib RTL<->CL/FL adapters in closed pipelines of 1-3
                queues (RTL producers rewriting one signal object in place, CL/FL producers and consumers, random stalls): FIFO ledger
                of every place by value + object ownership; two topologies are compared cycle by cycle with Model/QAdapter.lean
                (theorems: Props/C17a.lean)
"""
from ..common import leanio
from ..common.leanio import InfraError
from . import c17_util as U
from . import c17_adapters as AD

PID = 'C17'
DRIVERS = ['queue']
MODULE = 'PymtlVerif.Props.C17'
GEN_MODULE = 'PymtlVerif.Props.C17Gen'
THEOREMS = ['PV.C17.' + t for t in [
  'ring_inv', 'ring_refines', 'one_entry_refines', 'vring_refines', 'cl_refines', 'refines_trace',
  'nothing_lost', 'fifo_order', 'never_exceeds', 'next_out_exists', 'next_out', 'count_exact', 'rdy_laws',
  'pipe_enq_when_full', 'bypass_deq_when_empty', 'num_free',
  'bypass2_fifo_order', 'bypass2_count_deq', 'bypass2_enq_law_fails',
]]
# generated-from-source = model, for every capacity n (Gen/QueueGen.lean is regenerated from $PV_REPO or /repo by pregen below)
GEN_THEOREMS = ['PV.C17Gen.' + t for t in [
  'gen_Basic_RegisterFile_rdata_eq', 'gen_Basic_RegisterFile_regs_next_eq', 'gen_Basic_Mux_out_eq',
  'gen_Basic_RegEn_out_next_eq', 'gen_Basic_Reg_out_next_eq', 'gen_Basic_RegRst_out_next_eq',
  'gen_Q_NormalQueueCtrlRTL_enq_rdy_eq', 'gen_Q_NormalQueueCtrlRTL_deq_rdy_eq',
  'gen_Q_NormalQueueCtrlRTL_enq_xfer_eq', 'gen_Q_NormalQueueCtrlRTL_deq_xfer_eq',
  'gen_Q_NormalQueueCtrlRTL_head_next_eq', 'gen_Q_NormalQueueCtrlRTL_tail_next_eq',
  'gen_Q_NormalQueueCtrlRTL_count_next_eq', 'gen_Q_NormalQueueCtrlRTL_wires', 'gen_Q_NormalQueueCtrlRTL_widths',
  'gen_Q_NormalQueueCtrlRTL_side', 'gen_Q_NormalQueueCtrlRTL_out', 'gen_Q_PipeQueueCtrlRTL_deq_rdy_eq',
  'gen_Q_PipeQueueCtrlRTL_enq_rdy_eq', 'gen_Q_PipeQueueCtrlRTL_enq_xfer_eq', 'gen_Q_PipeQueueCtrlRTL_deq_xfer_eq',
  'gen_Q_PipeQueueCtrlRTL_head_next_eq', 'gen_Q_PipeQueueCtrlRTL_tail_next_eq',
  'gen_Q_PipeQueueCtrlRTL_count_next_eq', 'gen_Q_PipeQueueCtrlRTL_wires', 'gen_Q_PipeQueueCtrlRTL_widths',
  'gen_Q_PipeQueueCtrlRTL_side', 'gen_Q_PipeQueueCtrlRTL_out', 'gen_Q_BypassQueueCtrlRTL_enq_rdy_eq',
  'gen_Q_BypassQueueCtrlRTL_deq_rdy_eq', 'gen_Q_BypassQueueCtrlRTL_mux_sel_eq',
  'gen_Q_BypassQueueCtrlRTL_enq_xfer_eq', 'gen_Q_BypassQueueCtrlRTL_deq_xfer_eq',
  'gen_Q_BypassQueueCtrlRTL_head_next_eq', 'gen_Q_BypassQueueCtrlRTL_tail_next_eq',
  'gen_Q_BypassQueueCtrlRTL_count_next_eq', 'gen_Q_BypassQueueCtrlRTL_wires', 'gen_Q_BypassQueueCtrlRTL_widths',
  'gen_Q_BypassQueueCtrlRTL_side', 'gen_Q_BypassQueueCtrlRTL_out', 'gen_S_NormalQueueCtrlRTL_recv_rdy_eq',
  'gen_S_NormalQueueCtrlRTL_send_val_eq', 'gen_S_NormalQueueCtrlRTL_recv_xfer_eq',
  'gen_S_NormalQueueCtrlRTL_send_xfer_eq', 'gen_S_NormalQueueCtrlRTL_head_next_eq',
  'gen_S_NormalQueueCtrlRTL_tail_next_eq', 'gen_S_NormalQueueCtrlRTL_count_next_eq',
  'gen_S_NormalQueueCtrlRTL_wires', 'gen_S_NormalQueueCtrlRTL_widths', 'gen_S_NormalQueueCtrlRTL_side',
  'gen_S_NormalQueueCtrlRTL_out', 'gen_S_PipeQueueCtrlRTL_send_val_eq', 'gen_S_PipeQueueCtrlRTL_recv_rdy_eq',
  'gen_S_PipeQueueCtrlRTL_recv_xfer_eq', 'gen_S_PipeQueueCtrlRTL_send_xfer_eq',
  'gen_S_PipeQueueCtrlRTL_head_next_eq', 'gen_S_PipeQueueCtrlRTL_tail_next_eq',
  'gen_S_PipeQueueCtrlRTL_count_next_eq', 'gen_S_PipeQueueCtrlRTL_wires', 'gen_S_PipeQueueCtrlRTL_widths',
  'gen_S_PipeQueueCtrlRTL_side', 'gen_S_PipeQueueCtrlRTL_out', 'gen_S_BypassQueueCtrlRTL_recv_rdy_eq',
  'gen_S_BypassQueueCtrlRTL_send_val_eq', 'gen_S_BypassQueueCtrlRTL_mux_sel_eq',
  'gen_S_BypassQueueCtrlRTL_recv_xfer_eq', 'gen_S_BypassQueueCtrlRTL_send_xfer_eq',
  'gen_S_BypassQueueCtrlRTL_head_next_eq', 'gen_S_BypassQueueCtrlRTL_tail_next_eq',
  'gen_S_BypassQueueCtrlRTL_count_next_eq', 'gen_S_BypassQueueCtrlRTL_wires', 'gen_S_BypassQueueCtrlRTL_widths',
  'gen_S_BypassQueueCtrlRTL_side', 'gen_S_BypassQueueCtrlRTL_out', 'gen_Q_NormalQueueDpathRTL_queue__rdata_0_eq',
  'gen_Q_NormalQueueDpathRTL_queue__regs_next_eq', 'gen_Q_NormalQueueDpathRTL_wires',
  'gen_Q_NormalQueueDpathRTL_widths', 'gen_Q_NormalQueueDpathRTL_side', 'gen_Q_NormalQueueDpathRTL_out',
  'gen_Q_BypassQueueDpathRTL_queue__rdata_0_eq', 'gen_Q_BypassQueueDpathRTL_queue__regs_next_eq',
  'gen_Q_BypassQueueDpathRTL_mux__out_eq', 'gen_Q_BypassQueueDpathRTL_wires', 'gen_Q_BypassQueueDpathRTL_widths',
  'gen_Q_BypassQueueDpathRTL_side', 'gen_Q_BypassQueueDpathRTL_out', 'gen_S_NormalQueueDpathRTL_rf__rdata_0_eq',
  'gen_S_NormalQueueDpathRTL_rf__regs_next_eq', 'gen_S_NormalQueueDpathRTL_wires',
  'gen_S_NormalQueueDpathRTL_widths', 'gen_S_NormalQueueDpathRTL_side', 'gen_S_NormalQueueDpathRTL_out',
  'gen_S_BypassQueueDpathRTL_rf__rdata_0_eq', 'gen_S_BypassQueueDpathRTL_rf__regs_next_eq',
  'gen_S_BypassQueueDpathRTL_mux__out_eq', 'gen_S_BypassQueueDpathRTL_wires', 'gen_S_BypassQueueDpathRTL_widths',
  'gen_S_BypassQueueDpathRTL_side', 'gen_S_BypassQueueDpathRTL_out', 'gen_Q_NormalQueue1EntryRTL_enq_rdy_eq',
  'gen_Q_NormalQueue1EntryRTL_deq_rdy_eq', 'gen_Q_NormalQueue1EntryRTL_full_next_eq',
  'gen_Q_NormalQueue1EntryRTL_entry_next_eq', 'gen_Q_NormalQueue1EntryRTL_wires',
  'gen_Q_NormalQueue1EntryRTL_widths', 'gen_Q_NormalQueue1EntryRTL_side', 'gen_Q_NormalQueue1EntryRTL_out',
  'gen_Q_PipeQueue1EntryRTL_enq_rdy_eq', 'gen_Q_PipeQueue1EntryRTL_deq_rdy_eq',
  'gen_Q_PipeQueue1EntryRTL_full_next_eq', 'gen_Q_PipeQueue1EntryRTL_entry_next_eq',
  'gen_Q_PipeQueue1EntryRTL_wires', 'gen_Q_PipeQueue1EntryRTL_widths', 'gen_Q_PipeQueue1EntryRTL_side',
  'gen_Q_PipeQueue1EntryRTL_out', 'gen_Q_BypassQueue1EntryRTL_enq_rdy_eq', 'gen_Q_BypassQueue1EntryRTL_deq_rdy_eq',
  'gen_Q_BypassQueue1EntryRTL_full_next_eq', 'gen_Q_BypassQueue1EntryRTL_entry_next_eq',
  'gen_Q_BypassQueue1EntryRTL_bypass_mux__out_eq', 'gen_Q_BypassQueue1EntryRTL_wires',
  'gen_Q_BypassQueue1EntryRTL_widths', 'gen_Q_BypassQueue1EntryRTL_side', 'gen_Q_BypassQueue1EntryRTL_out',
  'gen_S_NormalQueue1EntryRTL_recv_rdy_eq', 'gen_S_NormalQueue1EntryRTL_full_next_eq',
  'gen_S_NormalQueue1EntryRTL_entry_next_eq', 'gen_S_NormalQueue1EntryRTL_wires',
  'gen_S_NormalQueue1EntryRTL_widths', 'gen_S_NormalQueue1EntryRTL_side', 'gen_S_NormalQueue1EntryRTL_out',
  'gen_S_PipeQueue1EntryRTL_recv_rdy_eq', 'gen_S_PipeQueue1EntryRTL_full_next_eq',
  'gen_S_PipeQueue1EntryRTL_entry_next_eq', 'gen_S_PipeQueue1EntryRTL_wires', 'gen_S_PipeQueue1EntryRTL_widths',
  'gen_S_PipeQueue1EntryRTL_side', 'gen_S_PipeQueue1EntryRTL_out', 'gen_S_BypassQueue1EntryRTL_send_val_eq',
  'gen_S_BypassQueue1EntryRTL_recv_rdy_eq', 'gen_S_BypassQueue1EntryRTL_full_next_eq',
  'gen_S_BypassQueue1EntryRTL_entry_next_eq', 'gen_S_BypassQueue1EntryRTL_bypass_mux__out_eq',
  'gen_S_BypassQueue1EntryRTL_wires', 'gen_S_BypassQueue1EntryRTL_widths', 'gen_S_BypassQueue1EntryRTL_side',
  'gen_S_BypassQueue1EntryRTL_out', 'gen_ER_PipeQueue1RTL_deq_en_eq', 'gen_ER_PipeQueue1RTL_enq_rdy_eq',
  'gen_ER_PipeQueue1RTL_full__in__eq', 'gen_ER_PipeQueue1RTL_buffer__out_next_eq',
  'gen_ER_PipeQueue1RTL_full__out_next_eq', 'gen_ER_PipeQueue1RTL_wires', 'gen_ER_PipeQueue1RTL_widths',
  'gen_ER_PipeQueue1RTL_side', 'gen_ER_PipeQueue1RTL_out', 'gen_ER_BypassQueue1RTL_enq_rdy_eq',
  'gen_ER_BypassQueue1RTL_deq_en_eq', 'gen_ER_BypassQueue1RTL_buffer__en_eq', 'gen_ER_BypassQueue1RTL_full__in__eq',
  'gen_ER_BypassQueue1RTL_buffer__out_next_eq', 'gen_ER_BypassQueue1RTL_full__out_next_eq',
  'gen_ER_BypassQueue1RTL_byp_mux__out_eq', 'gen_ER_BypassQueue1RTL_wires', 'gen_ER_BypassQueue1RTL_widths',
  'gen_ER_BypassQueue1RTL_side', 'gen_ER_BypassQueue1RTL_out', 'gen_ER_NormalQueue1RTL_enq_rdy_eq',
  'gen_ER_NormalQueue1RTL_deq_en_eq', 'gen_ER_NormalQueue1RTL_full__in__eq',
  'gen_ER_NormalQueue1RTL_buffer__out_next_eq', 'gen_ER_NormalQueue1RTL_full__out_next_eq',
  'gen_ER_NormalQueue1RTL_wires', 'gen_ER_NormalQueue1RTL_widths', 'gen_ER_NormalQueue1RTL_side',
  'gen_ER_NormalQueue1RTL_out', 'gen_VR_PipeQueue1RTL_full_next_eq', 'gen_VR_PipeQueue1RTL_enq_rdy_eq',
  'gen_VR_PipeQueue1RTL_buffer__en_eq', 'gen_VR_PipeQueue1RTL_next_full_eq',
  'gen_VR_PipeQueue1RTL_buffer__out_next_eq', 'gen_VR_PipeQueue1RTL_wires', 'gen_VR_PipeQueue1RTL_widths',
  'gen_VR_PipeQueue1RTL_side', 'gen_VR_PipeQueue1RTL_out', 'gen_VR_BypassQueue1RTL_full_next_eq',
  'gen_VR_BypassQueue1RTL_enq_rdy_eq', 'gen_VR_BypassQueue1RTL_buffer__en_eq', 'gen_VR_BypassQueue1RTL_next_full_eq',
  'gen_VR_BypassQueue1RTL_deq_val_eq', 'gen_VR_BypassQueue1RTL_buffer__out_next_eq',
  'gen_VR_BypassQueue1RTL_byp_mux__out_eq', 'gen_VR_BypassQueue1RTL_wires', 'gen_VR_BypassQueue1RTL_widths',
  'gen_VR_BypassQueue1RTL_side', 'gen_VR_BypassQueue1RTL_out', 'gen_VR_NormalQueue1RTL_full_next_eq',
  'gen_VR_NormalQueue1RTL_enq_rdy_eq', 'gen_VR_NormalQueue1RTL_buffer__en_eq', 'gen_VR_NormalQueue1RTL_next_full_eq',
  'gen_VR_NormalQueue1RTL_buffer__out_next_eq', 'gen_VR_NormalQueue1RTL_wires', 'gen_VR_NormalQueue1RTL_widths',
  'gen_VR_NormalQueue1RTL_side', 'gen_VR_NormalQueue1RTL_out', 'gen_VR_NormalQueueRTLCtrl_do_enq_eq',
  'gen_VR_NormalQueueRTLCtrl_do_deq_eq', 'gen_VR_NormalQueueRTLCtrl_wen_eq',
  'gen_VR_NormalQueueRTLCtrl_enq_ptr_inc_eq', 'gen_VR_NormalQueueRTLCtrl_deq_ptr_inc_eq',
  'gen_VR_NormalQueueRTLCtrl_enq_ptr_next_eq', 'gen_VR_NormalQueueRTLCtrl_deq_ptr_next_eq',
  'gen_VR_NormalQueueRTLCtrl_num_free_entries_eq', 'gen_VR_NormalQueueRTLCtrl_full_next_cycle_eq',
  'gen_VR_NormalQueueRTLCtrl_empty_eq', 'gen_VR_NormalQueueRTLCtrl_enq_rdy_eq',
  'gen_VR_NormalQueueRTLCtrl_deq_val_eq', 'gen_VR_NormalQueueRTLCtrl_waddr_eq', 'gen_VR_NormalQueueRTLCtrl_raddr_eq',
  'gen_VR_NormalQueueRTLCtrl_seq_deq_ptr_next_eq', 'gen_VR_NormalQueueRTLCtrl_seq_enq_ptr_next_eq',
  'gen_VR_NormalQueueRTLCtrl_full_next_eq', 'gen_VR_NormalQueueRTLCtrl_wires', 'gen_VR_NormalQueueRTLCtrl_widths',
  'gen_VR_NormalQueueRTLCtrl_side', 'gen_VR_NormalQueueRTLCtrl_out', 'gen_VR_NormalQueueRTLDpath_queue__rdata_0_eq',
  'gen_VR_NormalQueueRTLDpath_queue__regs_next_eq', 'gen_VR_NormalQueueRTLDpath_wires',
  'gen_VR_NormalQueueRTLDpath_widths', 'gen_VR_NormalQueueRTLDpath_side', 'gen_VR_NormalQueueRTLDpath_out',
  'gen_Q_NormalQueueRTL_struct', 'gen_Q_NormalQueueRTL_dispatch', 'gen_Q_PipeQueueRTL_struct',
  'gen_Q_PipeQueueRTL_dispatch', 'gen_Q_BypassQueueRTL_struct', 'gen_Q_BypassQueueRTL_dispatch',
  'gen_S_NormalQueueRTL_struct', 'gen_S_NormalQueueRTL_dispatch', 'gen_S_PipeQueueRTL_struct',
  'gen_S_PipeQueueRTL_dispatch', 'gen_S_BypassQueueRTL_struct', 'gen_S_BypassQueueRTL_dispatch',
  'gen_ER_BypassQueue2RTL_struct', 'gen_VR_NormalQueueRTL_struct',
]]
THEOREM_MODULE = {**{t: MODULE for t in THEOREMS}, **{t: GEN_MODULE for t in GEN_THEOREMS}}
THEOREMS = THEOREMS + GEN_THEOREMS
MODULE = [MODULE, GEN_MODULE]
# ---- begin: queues behind the level adapters, message ownership (harness/checks/c17_adapters.py, Props/C17a.lean)
DRIVERS = DRIVERS + AD.DRIVERS
MODULE = MODULE + [AD.MODULE]
THEOREMS = THEOREMS + AD.THEOREMS
THEOREM_MODULE.update({t: AD.MODULE for t in AD.THEOREMS})
# ---- end
TRUSTED = [
  'Model/Queue.lean follows the update blocks of the five queue files (registers, wrap tests, Bits widths, reset branches) by hand',
  'RegisterFile / Mux / Reg / RegEn / RegRst are modelled inline (a function Nat -> msg for the register file)',
  'the simulator (DefaultPassGroup scheduling, sim_eval_combinational, sim_tick) is the execution vehicle of the real classes, not modelled',
  'CL queues: the same-cycle order of the producer and consumer blocks is taken from the real scheduler run; the model hard-codes the order the constraints imply',
  'valrdy_queues.py is unimportable as shipped (InValRdyIfc/OutValRdyIfc missing from pymtl3.stdlib.ifcs); the check supplies the two interfaces for the import only',
]
TRUSTED += [
  'translator tie for the RTL queues: tools/py2lean_queue.py renders, with Python `ast`, every @update / @update_ff block, every '
  '`//= lambda:` connection, the constant attributes (last_idx, num_entries), the declared widths and the connect / `//=` wiring of '
  'the ctrl, dpath and one-entry classes of queues/queues.py, stream/queues.py, queues/enrdy_queues.py, queues/valrdy_queues.py and '
  'of basic_rtl Reg / RegEn / RegRst / Mux / RegisterFile as those instantiate them into Gen/QueueGen.lean, with the capacity as the Lean '
  'variable n and the entry type as a type variable (widths clog2 n / clog2 (n+1) stay symbolic; Bits + and - are rendered modulo 2^w; '
  'subset: `@=`, `<<=`, if/elif/else merged into conditional expressions, `for i in range(<static>)` unrolled, `x if c else y`, & | ~, '
  '+ -, comparisons, zext, T(k), port lists indexed by a signal, the register list indexed by a signal as function application / update; '
  'a combinational signal assigned on some paths only reads an explicit latch field). Resolved statically: which file a class lives in, '
  'the interface field tables (EnqIfcRTL/DeqIfcRTL, stream Recv/SendIfcRTL, enrdy Recv/SendIfcRTL, InValRdyIfc/OutValRdyIfc), which '
  'constructor parameter is the capacity / the entry type, other parameters from the instantiation or their defaults. Anything else makes '
  'the translator fail = broken obligation; a generated definition without a theorem in Props/C17Gen.lean is a broken obligation too. '
  'Props/C17Gen.lean gives per class the valuation of the Python signals by terms of Model/Queue.lean (the hand-written NAMING tie, '
  'cross-checked by the simulation comparison that reads the same ports) and proves FOR ALL n, all states and inputs that it satisfies '
  'every generated equation and register update, every connection, the widths and (for n >= 2) the no-exception side conditions; '
  'wrapper classes (NormalQueueRTL ..., BypassQueue2RTL): the `num_entries == 1` dispatch is proved equal to runCls\'s, the instance and '
  'connection tables are compared with the expected tables. Still hand-transcribed only: the CL queues (cl_queues.py), the composition '
  'of ctrl + dpath (+ of q1/q2 in BypassQueue2RTL) into one step function along the connection tables, the harness-side Dut adapters.',
]

def pregen(ck):
  """translator-based tie: regenerate lean/PymtlVerif/Gen/QueueGen.lean from the queue sources of $PV_REPO (default /repo) --
  written only if its content changed; Props/C17Gen.lean then re-proves generated = model for every capacity"""
  import importlib.util, os, re
  path = os.path.join(leanio.VERIF, 'tools', 'py2lean_queue.py')
  spec = importlib.util.spec_from_file_location('py2lean_queue', path)
  mod = importlib.util.module_from_spec(spec); spec.loader.exec_module(mod)
  notes = mod.pregen()
  # every generated signal definition must have its theorem
  gen = open(mod.DEFAULT_OUT).read()
  thm = open(os.path.join(leanio.LEAN_DIR, 'PymtlVerif', 'Props', 'C17Gen.lean')).read()
  ns, missing = None, []
  for line in gen.split('\n'):
    m = re.match(r'namespace (\S+)', line)
    if m: ns = m.group(1)
    m = re.match(r'def (\S+)', line)
    if m and ns and ns != 'PV.QueueGen' and not re.fullmatch(r'widths|side|wires|c_\w+', m.group(1)):
      if f'QueueGen.{ns}.{m.group(1)}' not in thm: missing.append(f'{ns}.{m.group(1)}')
  if missing: raise RuntimeError('generated definitions without a theorem in Props/C17Gen.lean: ' + ', '.join(missing[:12]))
  return notes

ASSUMPTIONS = [
  'producers/consumers on en/rdy interfaces are protocol-legal (en only when rdy, judged on the same cycle\'s rdy after the inputs it depends on are applied); val/rdy sides are unconstrained',
  'capacities >= 1 (valrdy NormalQueueRTL: >= 2, it cannot be constructed with 1)',
  'messages accepted in a cycle in which reset is high are dropped by every resettable class whose rdy is not gated by reset (stream, valrdy NormalQueueRTL, enrdy Bypass): the FIFO clauses are stated between resets',
]
RULE = ('queue class x capacity {1,2,3,4,5,7,8} x message type {Bits16, 2-field bitstruct} x random intent history '
        '(per cycle: reset?, want-enq?, message, want-deq?; ~60 cycles + drain; biased phases fill/drain/steady; reset pulses); '
        'thorough adds every (reachable control state x contents over a 2-message alphabet) x every intent for n <= 4, reached on a fresh '
        'instance by the shortest input prefix, followed by a full drain; non-trivial = at least one enqueue and one dequeue transfer happened; '
        'distinct = distinct (class, n, type, intents)')

RULE = RULE + ' | ' + AD.RULE
TRUSTED = TRUSTED + AD.TRUSTED
ASSUMPTIONS = ASSUMPTIONS + [
  'adapter stream: a CL or FL producer that calls a CL queue (or a non-copying adapter: RecvFL2SendCL, RecvFL2SendRTL, RecvCL2GiveFL) directly passes a fresh '
  'object per message -- those callees keep the object they are given; producers in front of a copying adapter (RecvRTL2SendCL, RecvCL2SendRTL, the stream '
  'queue adapters) rewrite ONE object in place every cycle',
]

ALL_CLASSES = list(U.CLASSES)

# ----------------------------------------------------------------------- running one history

PARTIAL_COV = {}      # (class, n) -> set of (head, tail) at which an enq+deq happened with 0 < len < capacity

def ring_ptrs(d):
  """(head/deq pointer, tail/enq pointer) of the multi-entry RTL classes, else None"""
  if d.fam in 'AB' and d.n >= 2:
    c = d.ctl(); return (c[0], c[1])
  if d.cls == 'vrNormalN':
    c = d.ctl(); return (c[1], c[0])
  return None

def exc_where(e):
  import traceback
  tb = traceback.extract_tb(e.__traceback__)
  fr = next((f for f in reversed(tb) if '/pymtl3/' in f.filename), tb[-1])
  return f"{fr.filename.split('/pymtl3/')[-1]}:{fr.lineno}"

def run_impl(cls, n, mt, intents, probe_at=None):
  """Drive a fresh real instance. Returns (actual inputs, observations, oracle problems, stats).
  An exception raised by the real queue (construction, combinational evaluation or tick) while it is driven
  protocol-legally ends the history at that cycle and is reported as the problem `queue-raised`.
  `probe_at = k`: stats['key'] is the search key (control registers, ledger contents) after k cycles."""
  cap = U.capacity(cls, n)
  ins, obs, bad = [], [], []
  nx = nd = nboth_full = nboth_empty = nboth_partial = 0
  key = None
  raised = None
  orc = None
  t = -1
  try:
    d = U.Dut(cls, n, mt)
    orc = U.Oracle(d.kind, cap, U.style_of(cls))
    ring = ring_ptrs(d) is not None
    for t, it in enumerate(intents):
      if probe_at == t: key = (d.ctl(), orc.contents())
      before = len(orc.contents())
      ptrs = ring_ptrs(d) if ring else None
      i, o = d.cycle(it)
      b, ex, dx = orc.check(i, o)
      for k, law, msg in b: bad.append((t, k, law, msg))
      if d.retracted is not None:
        bad.append((t, 'rdy-law', 'retracted', f'rdy went low after en was raised: {d.retracted}')); d.retracted = None
      nx += ex; nd += dx
      if ex and dx and before == cap: nboth_full += 1
      if ex and dx and before == 0: nboth_empty += 1
      if ex and dx and 0 < before < cap:
        nboth_partial += 1
        if ptrs is not None: PARTIAL_COV.setdefault((cls, n), set()).add(ptrs)
      ins.append(list(i)); obs.append(o)
    if probe_at == len(intents): key = (d.ctl(), orc.contents())
  except InfraError:
    raise
  except Exception as e:
    raised = type(e).__name__
    first = (str(e).strip().split('\n') or [''])[0][:160]
    bad.append((t if len(ins) <= t else t + 1, 'queue-raised', raised,
                f'the real queue raised {raised} at {exc_where(e)}: {first}'))
  left = orc.contents() if orc is not None else ()
  return ins, obs, bad, dict(enq=nx, deq=nd, both_full=nboth_full, both_empty=nboth_empty, both_partial=nboth_partial,
                             left=len(left), key=key, raised=raised)

def fmt_obs(o):
  er, dv, ret, cnt = o
  return f"{er} {dv} {'-' if ret is None else ret} {cnt}"

def model_line(op, cls, n, ins):
  return leanio.line('queue', op, U.LEAN_CLS.get(cls, cls), n, [list(map(int, i)) for i in ins])

def parse_reply(r):
  return [] if r == '.' else r.split('|')

def drain_intents(cap):
  return [[0, 0, 0, 1] for _ in range(cap + 1)]

# ----------------------------------------------------------------------- random histories

def gen_intents(rng, cls, n, width, ncyc):
  cap = U.capacity(cls, n)
  fam = U.CLASSES[cls][0]
  mode = rng.choice(['unique', 'unique', 'small'])
  base = rng.randrange(1 << width)
  k = 0
  resets = set()
  if fam != 'E' and rng.random() < 0.5:
    for _ in range(rng.randint(1, 2)):
      t0 = rng.randrange(3, ncyc - 3); resets.update(range(t0, t0 + rng.randint(1, 2)))
  out = []
  pe, pd = 0.5, 0.5
  for t in range(ncyc):
    if t % max(2, cap + 2) == 0:      # change phase: fill / drain / steady / idle
      ph = rng.choice(['fill', 'drain', 'steady', 'steady', 'rand'])
      pe, pd = {'fill': (0.9, 0.15), 'drain': (0.15, 0.9), 'steady': (0.85, 0.85), 'rand': (rng.random(), rng.random())}[ph]
    we = int(rng.random() < pe); wd = int(rng.random() < pd)
    if mode == 'unique':
      msg = (base + k) % (1 << width); k += 1
    else:
      msg = rng.choice([0, 1, (1 << width) - 1, 2])
    out.append([int(t in resets), we, msg, wd])
  return out + drain_intents(cap)

class Batch:
  """collect histories, ask the model for all of them in one driver call, compare"""
  def __init__(self, ck):
    self.ck = ck
    self.items = []

  def add(self, case, ins, obs, bad, stats):
    self.items.append((case, ins, obs, bad, stats))

  def flush(self):
    ck = self.ck
    if not self.items: return
    lines = []
    for case, ins, obs, bad, stats in self.items:
      lines.append(model_line('run', case['cls'], case['n'], ins))
      if case['cls'] != 'erBypass2': lines.append(model_line('spec', case['cls'], case['n'], ins))
    rep = ck.drv('queue').batch(lines)
    j = 0
    for case, ins, obs, bad, stats in self.items:
      m = parse_reply(rep[j]); j += 1
      sp = None
      if case['cls'] != 'erBypass2':
        sp = parse_reply(rep[j]); j += 1
      judge(ck, case, ins, obs, bad, stats, m, sp)
    self.items = []

VIOL_CAP = {}

def judge(ck, case, ins, obs, bad, stats, m, sp):
  cls = case['cls']
  ck.count(case, stats['enq'] > 0 and stats['deq'] > 0)
  ck.hist('class', cls)
  ck.hist('capacity', U.capacity(cls, case['n']))
  ck.hist('origin', case.get('origin', 'random'))
  ck.hist('events', 'enq', stats['enq']); ck.hist('events', 'deq', stats['deq'])
  ck.hist('events', 'enq+deq at full', stats['both_full']); ck.hist('events', 'enq+deq at empty', stats['both_empty'])
  ck.hist('events', 'enq+deq partially filled', stats['both_partial'])
  ck.hist('events', 'reset cycles', sum(1 for i in ins if i[0]))
  impl = [fmt_obs(o) for o in obs]
  if stats['raised']:
    ck.hist('events', 'real queue raised', 1)
    case = dict(case, intents=case['intents'][:len(ins) + 1])       # the history up to the cycle that raised
  elif stats['left'] and case.get('drained', True):
    bad = bad + [(len(ins) - 1, 'fifo', 'lost', f"{stats['left']} accepted message(s) never delivered although the consumer kept asking")]
  if bad:
    seen = set()
    for t, kind, law, msg in bad:
      sig = {'cls': U.REAL_NAME[cls], 'law': law}
      if kind == 'queue-raised': sig = {'cls': U.REAL_NAME[cls], 'n': case['n'], 'exception': law}
      key = (kind, sig['cls'], law, sig.get('n'))
      if key in seen: continue
      seen.add(key)
      VIOL_CAP[key] = VIOL_CAP.get(key, 0) + 1
      if VIOL_CAP[key] > 3: continue
      ck.violation(kind, sig, case, {'cycle': t, 'what': msg, 'inputs (rst,enq,msg,deq)': ins[:t + 1],
                                     'impl (enqRdy deqRdy ret count)': impl[:t + 1], 'model': m[:t + 1],
                                     'oracle': 'FIFO ledger of the observed handshakes + ready law of the kind'})
  m = m[:len(impl)] if stats['raised'] else m
  if sp is not None and stats['raised']: sp = sp[:len(impl)]
  if impl != m:
    t = next((k for k in range(min(len(impl), len(m))) if impl[k] != m[k]), min(len(impl), len(m)))
    ck.disagreement(f'Model/Queue.runCls≈{U.REAL_NAME[cls]}', dict(case, first_diff_cycle=t), m[:t + 1], impl[:t + 1])
  if sp is not None and sp != m and not bad:
    t = next((k for k in range(min(len(sp), len(m))) if sp[k] != m[k]), min(len(sp), len(m)))
    ck.disagreement(f'runCls≈runSpec (theorem refines_trace) {cls}', dict(case, first_diff_cycle=t), m[:t + 1], sp[:t + 1])

def do_case(ck, batch, case, probe_at=None):
  ins, obs, bad, stats = run_impl(case['cls'], case['n'], case['mt'], case['intents'], probe_at)
  batch.add(case, ins, obs, bad, stats)
  return stats

# ----------------------------------------------------------------------- exhaustive enumeration (small capacities)

def all_intents(fam, a, b):
  rs = [0] if fam == 'E' else [0, 1]
  return [[r, we, msg, wd] for r in rs for (we, msg) in ((0, a), (1, a), (1, b)) for wd in (0, 1)]

def exhaustive(ck, batch, cls, n, mt, limit=None):
  """Breadth-first over (control registers of the real instance, ledger contents) with a 2-message alphabet;
  every state is reached on a fresh instance by its shortest intent prefix, every intent is applied there,
  then the queue is drained. Returns (#states, #edges)."""
  fam = U.CLASSES[cls][0]
  cap = U.capacity(cls, n)
  width = U.MSG_TYPES[mt][1]
  a, b = 5, (1 << width) - 3
  offers = all_intents(fam, a, b)
  seen = {}
  try:
    d0 = U.Dut(cls, n, mt)
    seen[(d0.ctl(), ())] = []
  except Exception:
    pass                     # reported by the first history below as `queue-raised`
  todo = [[]]
  edges = 0
  while todo:
    nxt = []
    for prefix in todo:
      for off in offers:
        intents = prefix + [off]
        case = {'cls': cls, 'n': n, 'mt': mt, 'intents': intents + drain_intents(cap), 'origin': 'exhaustive'}
        key = do_case(ck, batch, case, probe_at=len(intents))['key']
        if key is not None and key not in seen:
          seen[key] = intents; nxt.append(intents)
        edges += 1
        if len(batch.items) >= 400: batch.flush()
        if limit and edges >= limit: return len(seen), edges
    todo = nxt
  return len(seen), edges

# ----------------------------------------------------------------------- directed corpus

def corpus():
  cs = []
  E = lambda m: [0, 1, m, 0]; D = [0, 0, 0, 1]; B = lambda m: [0, 1, m, 1]; I = [0, 0, 0, 0]; R = [1, 0, 0, 0]
  for cls in ALL_CLASSES:
    for n in U.capacities(cls, (1, 2, 3)):
      cap = U.capacity(cls, n)
      # fill completely, enq+deq at full, drain, enq+deq at empty, wrap around twice, reset in the middle
      h = [E(10 + k) for k in range(cap + 1)] + [B(40), B(41)] + [D] * (cap + 1) + [B(50), B(51)]
      h += [x for k in range(2 * cap + 1) for x in (E(60 + k), B(80 + k), D)]
      h += [E(100), [1, 1, 101, 1], E(102), D, D, I]
      cs.append({'cls': cls, 'n': n, 'mt': 'b16', 'intents': h + drain_intents(cap), 'origin': 'corpus'})
  # simultaneous enqueue+dequeue while partially filled, at every (head, tail) position: for each fill level c
  # (0 < c < n) rotate head to a start position, hold c messages, and transfer on both sides for n+1 cycles
  for cls in ALL_CLASSES:
    if U.CLASSES[cls][0] not in 'ABE' and cls != 'vrNormalN': continue
    for n in U.capacities(cls, (2, 3, 4, 5, 6, 7, 8)):
      if n < 2: continue
      for c in range(1, n):
        start = (c * 3) % n
        h = [x for k in range(start) for x in (E(200 + k), D)] + [E(300 + k) for k in range(c)]
        h += [B(400 + k) for k in range(n + 1)] + [I, B(500), D, B(501)]
        cs.append({'cls': cls, 'n': n, 'mt': 'b16', 'intents': h + drain_intents(n), 'origin': 'corpus-partial'})
  # the BypassQueue2RTL bubble: 1 of 2 entries held, enq.rdy low
  cs.append({'cls': 'erBypass2', 'n': 2, 'mt': 'b16', 'intents': [E(1), E(2), D, I, I] + drain_intents(2), 'origin': 'corpus'})
  return cs

# ----------------------------------------------------------------------- entry points

def run(ck):
  rng = ck.rng
  if U.VALRDY_IMPORT_ERROR:
    ck.notes.append('pymtl3.stdlib.queues.valrdy_queues cannot be imported as shipped (' + U.VALRDY_IMPORT_ERROR +
                    '); its classes were exercised with the two missing interfaces supplied by the harness')
  batch = Batch(ck)
  PARTIAL_COV.clear(); VIOL_CAP.clear()
  for case in corpus(): do_case(ck, batch, case)
  batch.flush()
  per_cfg = 10 if ck.tier == "quick" else 110
  ncyc = 60
  for cls in ALL_CLASSES:
    for n in U.capacities(cls):
      for mt in ('b16', 'pkt'):
        reps = per_cfg if U.CLASSES[cls][3] else per_cfg * 3
        for _ in range(reps):
          case = {'cls': cls, 'n': n, 'mt': mt, 'intents': gen_intents(rng, cls, n, U.MSG_TYPES[mt][1], ncyc)}
          do_case(ck, batch, case)
        batch.flush()
        if len(ck.violations) > 40: break
  # exhaustive part: quick = capacities <= 2 of every class; thorough = capacities <= 4
  maxn = 2 if ck.tier == 'quick' else 4
  ex = {}
  for cls in ALL_CLASSES:
    for n in U.capacities(cls, tuple(range(1, maxn + 1))):
      if ck.tier == 'quick' and U.CLASSES[cls][0] in 'AB' and n == 2 and cls not in ('qPipe', 'sBypass'): continue
      st, ed = exhaustive(ck, batch, cls, n, 'b16')
      ex[f'{cls}/{n}'] = [st, ed]
  batch.flush()
  want = {}
  for cls in ALL_CLASSES:
    if U.CLASSES[cls][0] in 'AB' or cls == 'vrNormalN':
      for n in U.capacities(cls, (2, 3, 4, 5, 6, 7, 8)):
        if n >= 2: want[(cls, n)] = {(h, t) for h in range(n) for t in range(n) if h != t}
  missing = {f'{c}/{n}': sorted(w - PARTIAL_COV.get((c, n), set())) for (c, n), w in want.items() if w - PARTIAL_COV.get((c, n), set())}
  ck.extra_cov['partial_fill_simultaneous'] = {
    'what': 'enq+deq in one cycle with 0 < len < capacity seen at (head, tail) positions, multi-entry RTL classes, capacities 2..8',
    'positions_required': sum(len(w) for w in want.values()),
    'positions_seen': sum(len(PARTIAL_COV.get(k, set()) & w) for k, w in want.items()),
    'missing': missing}
  ck.extra_cov['exhaustive_part'] = {'what': 'states (control registers x contents over 2 messages) and (state x intent) edges per class/capacity', 'table': ex}
  # second stream: the queues behind the stdlib level adapters; message ownership
  AD.run_stream(ck)

def replay(ck, data):
  case = data['case']
  if case.get('stream'): return AD.replay(ck, case)
  case = {k: case[k] for k in ('cls', 'n', 'mt', 'intents')}
  ins, obs, bad, stats = run_impl(case['cls'], case['n'], case['mt'], case['intents'])
  m = parse_reply(ck.drv('queue').batch([model_line('run', case['cls'], case['n'], ins)])[0])
  impl = [fmt_obs(o) for o in obs]
  print(f"class={U.REAL_NAME[case['cls']]} n={case['n']} msg={case['mt']}")
  print('cycle: inputs(rst,enq,msg,deq) | impl (enqRdy deqRdy ret count) | model')
  for t, (i, a, b) in enumerate(zip(ins, impl, m)):
    print(f'{t:3d}: {i} | {a} | {b}' + ('   <-- differ' if a != b else ''))
  for t, k, law, msg in bad: print(f'oracle: cycle {t}: {k}/{law}: {msg}')
  if stats['left'] and not stats['raised']: print(f"oracle: {stats['left']} accepted message(s) not delivered at the end")
  return 1 if bad else 0
