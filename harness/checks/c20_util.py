"""C20 helpers: independent Python TinyRV0 interpreter (direct oracle), random terminating program
generator, and runners for the three tutorial processors / the checksum units inside the repo's
own test harnesses (with a recording sink instead of the asserting one)."""
import contextlib, io, os, struct, sys

import pymtl3
_REPO = os.path.dirname(os.path.dirname(os.path.abspath(pymtl3.__file__)))   # the `examples` package lives next to pymtl3
if _REPO not in sys.path: sys.path.insert(0, _REPO)

from pymtl3 import *
from pymtl3.stdlib.test_utils import TestSinkCL

import examples.ex03_proc.test.harness as proc_harness
from examples.ex03_proc.SparseMemoryImage import SparseMemoryImage
from examples.ex03_proc.tinyrv0_encoding import assemble
from examples.ex03_proc.ProcFL import ProcFL
from examples.ex03_proc.ProcCL import ProcCL
from examples.ex03_proc.ProcRTL import ProcRTL

PROCS = {'FL': ProcFL, 'CL': ProcCL, 'RTL': ProcRTL}
M32 = 0xffffffff
TEXT = 0x200
DATA = 0x2000
NDATA = 64                      # data window: NDATA words from DATA

#=========================================================================
# Direct oracle: TinyRV0 interpreter written from tinyrv0-isa.md (bit slices, Python ints)
#=========================================================================

def sx(v, n):                   # sign extend an n-bit field
  return v - (1 << n) if v >> (n - 1) else v

def isa_decode(w):
  """(name, rd, rs1, rs2, imm) or None; imm already sign-extended (csr number for csrr/csrw)"""
  opc, rd, f3, rs1, rs2, f7 = w & 0x7f, (w >> 7) & 31, (w >> 12) & 7, (w >> 15) & 31, (w >> 20) & 31, w >> 25
  if opc == 0b0110011 and f7 == 0 and f3 in (0, 1, 5, 7):
    return ({0: 'add', 1: 'sll', 5: 'srl', 7: 'and'}[f3], rd, rs1, rs2, 0)
  if opc == 0b0010011 and f3 == 0: return ('addi', rd, rs1, 0, sx(w >> 20, 12))
  if opc == 0b0000011 and f3 == 2: return ('lw', rd, rs1, 0, sx(w >> 20, 12))
  if opc == 0b0100011 and f3 == 2: return ('sw', 0, rs1, rs2, sx((f7 << 5) | rd, 12))
  if opc == 0b1100011 and f3 == 1:
    imm = ((w >> 31) << 12) | (((w >> 7) & 1) << 11) | (((w >> 25) & 0x3f) << 5) | (((w >> 8) & 0xf) << 1)
    return ('bne', 0, rs1, rs2, sx(imm, 13))
  if opc == 0b1110011 and f3 == 2 and rs1 == 0: return ('csrr', rd, 0, 0, w >> 20)
  if opc == 0b1110011 and f3 == 1 and rd == 0: return ('csrw', 0, rs1, 0, w >> 20)
  return None

def isa_encode(name, rd, rs1, rs2, imm):
  """encoding tables of the document; imm signed (csr number for csrr/csrw)"""
  R = lambda f7, f3, opc: (f7 << 25) | (rs2 << 20) | (rs1 << 15) | (f3 << 12) | (rd << 7) | opc
  I = lambda f3, opc: ((imm & 0xfff) << 20) | (rs1 << 15) | (f3 << 12) | (rd << 7) | opc
  if name in ('add', 'sll', 'srl', 'and'): return R(0, {'add': 0, 'sll': 1, 'srl': 5, 'and': 7}[name], 0b0110011)
  if name == 'addi': return I(0, 0b0010011)
  if name == 'lw': return I(2, 0b0000011)
  if name == 'csrr': return ((imm & 0xfff) << 20) | (2 << 12) | (rd << 7) | 0b1110011
  if name == 'csrw': return ((imm & 0xfff) << 20) | (rs1 << 15) | (1 << 12) | 0b1110011
  u = imm & 0x1fff
  if name == 'sw':
    return (((u >> 5) & 0x7f) << 25) | (rs2 << 20) | (rs1 << 15) | (2 << 12) | ((u & 31) << 7) | 0b0100011
  if name == 'bne':
    return ((u >> 12) << 31) | (((u >> 5) & 0x3f) << 25) | (rs2 << 20) | (rs1 << 15) | (1 << 12) | \
           (((u >> 1) & 0xf) << 8) | (((u >> 11) & 1) << 7) | 0b1100011
  raise ValueError(name)

def isa_run(mem, next_input, fuel):
  """mem: bytearray(1MB), modified in place; next_input(rd) -> value or None (FIFO empty).
  Accelerator CSRs 0x7E0..0x7FF follow the tutorial's NullXcel.py: a single register xr0 (0 at power-on) behind every number.
  Returns dict(stop, icount, pc, out, regs, stores, inputs)."""
  R = [0] * 32; pc = TEXT; out = []; stores = []; inputs = []; n = 0; stop = 'fuel'; nops = 0; mix = {}; xr0 = 0
  ok = lambda a: a % 4 == 0 and a + 4 <= (1 << 20)
  while n < fuel:
    if not ok(pc): stop = 'undefined'; break
    d = isa_decode(int.from_bytes(mem[pc:pc + 4], 'little'))
    nops += d == ('addi', 0, 0, 0, 0)
    if d is None: stop = 'illegal'; break
    name, rd, rs1, rs2, imm = d
    mix[name] = mix.get(name, 0) + 1
    npc = (pc + 4) & M32; val = None
    if name == 'add': val = (R[rs1] + R[rs2]) & M32
    elif name == 'and': val = R[rs1] & R[rs2]
    elif name == 'sll': val = (R[rs1] << (R[rs2] & 31)) & M32
    elif name == 'srl': val = R[rs1] >> (R[rs2] & 31)
    elif name == 'addi': val = (R[rs1] + imm) & M32
    elif name in ('lw', 'sw'):
      a = (R[rs1] + imm) & M32
      if not ok(a): stop = 'undefined'; break
      if name == 'lw': val = int.from_bytes(mem[a:a + 4], 'little')
      else: mem[a:a + 4] = R[rs2].to_bytes(4, 'little'); stores.append(a)
    elif name == 'bne':
      if R[rs1] != R[rs2]:
        npc = (pc + imm) & M32; k = 'taken_back' if imm < 0 else 'taken_fwd'; mix[k] = mix.get(k, 0) + 1
    elif name == 'csrr':
      if 0x7E0 <= imm <= 0x7FF: val = xr0; mix['xcel_rd'] = mix.get('xcel_rd', 0) + 1     # NullXcel: one register, address ignored
      elif imm != 0xFC0: stop = 'undefined'; break
      else:
        val = next_input(rd)
        if val is None: stop = 'input-empty'; break
        inputs.append(val)
    elif name == 'csrw':
      if 0x7E0 <= imm <= 0x7FF: xr0 = R[rs1]; mix['xcel_wr'] = mix.get('xcel_wr', 0) + 1
      elif imm != 0x7C0: stop = 'undefined'; break
      else: out.append(R[rs1])
    if val is not None and rd != 0: R[rd] = val
    pc = npc; n += 1
  return dict(stop=stop, icount=n, pc=pc, out=out, regs=R, stores=stores, inputs=inputs, nops=nops, mix=mix, xr0=xr0)

#=========================================================================
# Random terminating programs
#=========================================================================
# instruction = (name, rd, rs1, rs2, imm_or_label); program = list of ('label', L) | instruction tuples

P_REGS, C_REGS, G_REGS = [1, 2], [3, 4], list(range(5, 32))
IMMS = [-2048, -2047, -1, 0, 1, 2, 4, 31, 32, 33, 2047, 0x7ff, -1024, 1023, 16, 255]
VALS = [0, 1, 2, 31, 32, 33, 0x7fffffff, 0x80000000, 0xffffffff, 0xfffffffe, 0x0000ffff, 0xffff0000, 0xdeadbeef, 4, 5]

class Gen:
  def __init__(s, rng, size):
    s.rng = rng; s.size = size; s.items = []; s.nlabel = 0; s.recent = []; s.count = 0
    s.free_counters = list(C_REGS)

  def label(s):
    s.nlabel += 1; return f'L{s.nlabel}'

  def emit(s, name, rd=0, rs1=0, rs2=0, imm=0):
    s.items.append((name, rd, rs1, rs2, imm)); s.count += 1
    if name in ('add', 'and', 'sll', 'srl', 'addi', 'lw', 'csrr') and rd:
      s.recent = ([rd] + s.recent)[:3]

  def src(s):
    r = s.rng.random()
    if s.recent and r < 0.55: return s.rng.choice(s.recent)          # dense RAW hazards
    if r < 0.62: return 0
    if r < 0.72: return s.rng.choice(P_REGS + C_REGS)
    return s.rng.choice(G_REGS)

  def dst(s):
    r = s.rng.random()
    if r < 0.05: return 0
    if s.recent and r < 0.25: return s.rng.choice([x for x in s.recent if x in G_REGS] or G_REGS)
    return s.rng.choice(G_REGS[:10] if r < 0.7 else G_REGS)

  def mem_operand(s):
    """(base register, offset); may emit an address-forming addi first"""
    rng = s.rng; r = rng.random()
    if r < 0.08: return 0, 4 * rng.randint(0, 511)                  # absolute low address (text / zero page): loads only
    p = rng.choice(P_REGS); off = 4 * rng.randint(-6, 6)
    if r < 0.2:                                                    # far base: exercises sign extension in the address adder
      g = s.dst() or 5; k = rng.choice([2044, -2048, 2040, -2044, 1024])
      if not -2048 <= off - k <= 2047: off = 4 if k < 0 else -4      # keep the compensating offset a 12-bit immediate
      s.emit('addi', g, p, 0, k)
      return g, off - k
    return p, off

  def one(s, depth):
    rng = s.rng
    k = rng.choices(['alu', 'addi', 'lw', 'sw', 'swlw', 'bump', 'save', 'csrr', 'csrw', 'nop', 'skip', 'loop', 'lwuse', 'alias', 'xw', 'xr', 'xmix', 'membr'],
                    [30, 12, 10, 9, 7, 2, 2, 5, 6, 2, 7, 7 if depth < 2 else 0, 7, 7, 3, 3, 5, 7])[0]
    if k == 'alias': s.alias()
    elif k == 'membr': s.membr()
    elif k == 'xw': s.emit('csrw', 0, s.src(), 0, s.xcsr())
    elif k == 'xr': s.emit('csrr', s.dst(), 0, 0, s.xcsr())
    elif k == 'xmix': s.xmix()
    elif k == 'alu': s.emit(rng.choice(['add', 'and', 'sll', 'srl']), s.dst(), s.src(), s.src())
    elif k == 'addi': s.emit('addi', s.dst(), s.src(), 0, rng.choice(IMMS) if rng.random() < 0.6 else rng.randint(-2048, 2047))
    elif k == 'lw':
      b, off = s.mem_operand(); s.emit('lw', s.dst(), b, 0, off)
    elif k == 'lwuse':                                            # load-use: consumer right behind the load
      b, off = s.mem_operand(); d = s.dst() or 6
      s.emit('lw', d, b, 0, off)
      c = rng.random()
      if c < 0.4: s.emit(rng.choice(['add', 'and', 'sll', 'srl']), s.dst(), *rng.choice([(d, s.src()), (s.src(), d), (d, d)]))
      elif c < 0.6: s.emit('csrw', 0, d, 0, 0x7C0)
      elif c < 0.8:
        b2, off2 = rng.choice(P_REGS), 4 * rng.randint(-6, 6); s.emit('sw', 0, b2, d, off2)
      else:
        L = s.label(); s.emit('bne', 0, *rng.choice([(d, s.src()), (s.src(), d)]), L); s.block(rng.randint(1, 3), depth + 1, plain=True); s.items.append(('label', L))
    elif k == 'sw':
      b, off = s.mem_operand()
      if b == 0: b, off = rng.choice(P_REGS), 4 * rng.randint(-6, 6)
      s.emit('sw', 0, b, s.src(), off)
    elif k == 'swlw':                                             # store then load, same or neighbouring word
      p = rng.choice(P_REGS); off = 4 * rng.randint(-6, 6)
      s.emit('sw', 0, p, s.src(), off)
      for _ in range(rng.choice([0, 0, 1, 2])): s.emit('addi', s.dst(), s.src(), 0, rng.choice(IMMS))
      s.emit('lw', s.dst(), p, 0, off + rng.choice([0, 0, 0, 4, -4]))
    elif k == 'bump': s.emit('addi', (p := rng.choice(P_REGS)), p, 0, rng.choice([4, -4, 8, -8]))
    elif k == 'save':                                             # pointer through memory: load feeds an address register
      p, q = rng.sample(P_REGS, 2); off = 4 * rng.randint(-6, 6)
      s.emit('sw', 0, q, p, off)
      for _ in range(rng.choice([0, 1, 2])): s.emit('addi', s.dst(), s.src(), 0, rng.choice(IMMS))
      s.emit('lw', p, q, 0, off)
      if rng.random() < 0.7:                                      # ... and is used at once
        if rng.random() < 0.5: s.emit('lw', s.dst(), p, 0, 4 * rng.randint(-6, 6))
        else: s.emit('sw', 0, p, s.src(), 4 * rng.randint(-6, 6))
    elif k == 'csrr': s.emit('csrr', s.dst() if rng.random() < 0.9 else rng.choice(P_REGS), 0, 0, 0xFC0)
    elif k == 'csrw': s.emit('csrw', 0, s.src(), 0, 0x7C0)
    elif k == 'nop': s.items.append(('nop',)); s.count += 1
    elif k == 'skip':                                             # forward branch over a block
      L = s.label(); s.emit('bne', 0, s.src(), s.src(), L)
      if rng.random() < 0.5: s.shadow()
      s.block(rng.randint(1, 5), depth + 1); s.items.append(('label', L))
    elif k == 'loop' and s.free_counters:                         # bounded backward branch with a down-counter
      c = s.free_counters.pop(); L = s.label()
      if rng.random() < 0.3: s.emit('csrr', c, 0, 0, 0xFC0)
      else: s.emit('addi', c, 0, 0, rng.randint(1, 6))
      s.items.append(('label', L))
      s.block(rng.randint(1, 9), depth + 1)
      s.emit('addi', c, c, 0, -1)
      for _ in range(rng.choice([0, 0, 0, 1])): s.emit('addi', s.dst(), s.src(), 0, rng.choice(IMMS))
      s.emit('bne', 0, c, 0, L)
      s.free_counters.append(c)
      if rng.random() < 0.5: s.shadow()

  def membr(s):
    """memory operations / csrw proc2mngr DIRECTLY in front of a bne whose operands do not depend on them (the branch reaches
    X while the instruction ahead still waits in M and, with slow memory, nothing has been fetched behind it), taken and
    not taken, forward and backward; the FIRST instruction at the target is a csrw of a distinctive value, the fall-through
    path sends a different one."""
    rng = s.rng
    G = G_REGS
    v, w = rng.sample(G[10:], 2)                                  # marker registers, not load destinations below
    s.emit('addi', v, 0, 0, rng.choice([0x6b1, 0x5c3, -0x111, 0x7a7])); s.emit('addi', w, 0, 0, rng.choice([0x123, -0x3c5, 0x2e2]))
    def front():
      for _ in range(rng.choice([1, 2, 2, 2, 3])):
        c = rng.random(); p = rng.choice(P_REGS); off = 4 * rng.randint(-6, 6)
        if c < 0.55: s.emit('lw', rng.choice(G[:10]), p, 0, off)
        elif c < 0.85: s.emit('sw', 0, p, rng.choice(G + [0]), off)
        else: s.emit('csrw', 0, rng.choice(G[10:]), 0, 0x7C0)
    backward = bool(s.free_counters) and rng.random() < 0.35
    if backward:                                                  # loop whose branch sits right behind memory operations
      c = s.free_counters.pop(); L = s.label()
      s.emit('addi', c, 0, 0, rng.randint(2, 4))
      s.items.append(('label', L))
      s.emit('csrw', 0, rng.choice([c, v]), 0, 0x7C0)             # first instruction at the target
      s.emit('addi', c, c, 0, -1)
      for _ in range(rng.choice([0, 0, 1])): s.emit('addi', w, w, 0, 1)
      front()
      s.emit('bne', 0, *rng.choice([(c, 0), (0, c)]), L)
      s.emit('csrw', 0, w, 0, 0x7C0)
      s.free_counters.append(c)
    else:
      L = s.label(); p = rng.choice(P_REGS)
      ops = rng.choice([(p, 0), (0, p), (v, w), (v, 0), (0, 0), (v, v), (p, p)])   # the first four are taken
      front()
      s.emit('bne', 0, *ops, L)
      for _ in range(rng.choice([1, 1, 2, 3])):                   # fall-through path
        if rng.random() < 0.6: s.emit('csrw', 0, w, 0, 0x7C0)
        else: s.emit('addi', w, w, 0, 5)
      s.items.append(('label', L))
      s.emit('csrw', 0, v, 0, 0x7C0)                              # first instruction at the target
      s.emit('addi', v, v, 0, 1); s.emit('csrw', 0, v, 0, 0x7C0)

  def membr_program(s):
    rng = s.rng
    for p in P_REGS: s.emit('csrr', p, 0, 0, 0xFC0)
    for r in G_REGS[:10]: s.emit('addi', r, 0, 0, 16 + r)
    while s.count < s.size:
      s.membr()
      for _ in range(rng.choice([0, 0, 1, 2])): s.one(2)
    s.epilogue()
    return s.items

  def xcsr(s):
    return s.rng.choice([0x7E0, 0x7E0, 0x7E1, 0x7E5, 0x7F0, 0x7FE, 0x7FF]) if s.rng.random() < 0.8 else s.rng.randint(0x7E0, 0x7FF)

  def xmix(s):
    """accelerator accesses right next to manager traffic, loads/stores and their own consumers (the accelerator register
    holds a distinctive non-zero value first)"""
    rng = s.rng; G = G_REGS
    if rng.random() < 0.8:
      v = rng.choice(G); s.emit('addi', v, rng.choice([0, v]), 0, rng.choice([0x5a5, -0x123, 0x7ff, 77]))
      s.emit('csrw', 0, v, 0, s.xcsr())
    d = s.dst() or 9
    c = rng.choice(['p2m_xr', 'p2m_xr', 'p2m_xr', 'm2p_xr', 'xr_m2p', 'lw_xr', 'sw_xr', 'xw_xr', 'xr_use', 'xr_p2m', 'xw_p2m_xr'])
    if c == 'p2m_xr':                                             # sink busy with earlier messages when the read's response returns
      for _ in range(rng.choice([1, 2, 2, 3])): s.emit('csrw', 0, s.src(), 0, 0x7C0)
      s.emit('csrr', d, 0, 0, s.xcsr())
    elif c == 'm2p_xr': s.emit('csrr', s.dst(), 0, 0, 0xFC0); s.emit('csrr', d, 0, 0, s.xcsr())
    elif c == 'xr_m2p': s.emit('csrr', d, 0, 0, s.xcsr()); s.emit('csrr', s.dst(), 0, 0, 0xFC0)
    elif c == 'lw_xr': s.emit('lw', s.dst(), rng.choice(P_REGS), 0, 4 * rng.randint(-6, 6)); s.emit('csrr', d, 0, 0, s.xcsr())
    elif c == 'sw_xr':
      s.emit('sw', 0, rng.choice(P_REGS), s.src(), 4 * rng.randint(-6, 6)); s.emit('csrr', d, 0, 0, s.xcsr())
      s.emit('sw', 0, rng.choice(P_REGS), d, 4 * rng.randint(-6, 6))
    elif c == 'xw_xr': s.emit('csrw', 0, s.src(), 0, s.xcsr()); s.emit('csrr', d, 0, 0, s.xcsr())
    elif c == 'xr_use':                                           # accelerator-read-use hazard
      s.emit('csrr', d, 0, 0, s.xcsr())
      s.emit(rng.choice(['add', 'and', 'sll', 'srl']), s.dst(), *rng.choice([(d, s.src()), (s.src(), d)]))
    elif c == 'xr_p2m': s.emit('csrr', d, 0, 0, s.xcsr()); s.emit('csrw', 0, d, 0, 0x7C0)
    else:
      s.emit('csrw', 0, s.src(), 0, s.xcsr()); s.emit('csrw', 0, s.src(), 0, 0x7C0); s.emit('csrw', 0, s.src(), 0, 0x7C0)
      s.emit('csrr', d, 0, 0, s.xcsr())
    if rng.random() < 0.7: s.emit('csrw', 0, d, 0, 0x7C0)

  def xcel_program(s):
    """program made of accelerator patterns between short stretches of ordinary code"""
    rng = s.rng
    for p in P_REGS: s.emit('csrr', p, 0, 0, 0xFC0)
    for r in G_REGS[:12]: s.emit('addi', r, 0, 0, 32 + r)
    while s.count < s.size:
      s.xmix()
      for _ in range(rng.choice([0, 0, 1, 2])): s.one(2)
    s.epilogue()
    return s.items

  def epilogue(s):
    for r in range(1, 32): s.emit('csrw', 0, r, 0, 0x7C0)        # dump the register file ...
    s.emit('csrr', 5, 0, 0, 0x7E0); s.emit('csrw', 0, 5, 0, 0x7C0)   # ... and the accelerator register

  def filler(s, G):
    rng = s.rng; c = rng.random()
    if c < 0.4: s.items.append(('nop',)); s.count += 1
    elif c < 0.7: s.emit('addi', (g := rng.choice(G)), g, 0, 1)
    else: s.emit(rng.choice(['add', 'and', 'sll', 'srl']), rng.choice(G), rng.choice(G), rng.choice(G))

  def alias(s):
    """"false producer" hazard: a NON-writing instruction (sw / bne; csrw and nop have rd field 0) whose instruction
    bits [11:7] -- sw: offset[4:0]; bne: offset[4:1|11] -- equal the number r of a register that one of the next 1-3
    instructions reads (as rs2, rs1, both, store data or branch operand). r holds a distinctive non-zero value and must
    come from the register file, never from a bypass path keyed on the rd field."""
    rng = s.rng
    r = rng.randint(1, 31)
    G = [x for x in G_REGS if x != r]
    if r in G_REGS and rng.random() < 0.6:
      s.emit('addi', r, 0, 0, rng.choice([100 + r, -r, 0x7ff - r, 1 + r]))
      for _ in range(rng.randint(0, 4)): s.filler(G)
    kind = rng.choice(['sw', 'sw', 'bne_nt', 'bne_nt', 'bne_t'])
    if kind == 'bne_t' and (r % 4 or not 8 <= r <= 24): kind = 'bne_nt'
    if kind == 'sw':
      p = rng.choice([x for x in P_REGS if x != r])
      off = r + 32 * rng.choice([-2, -1, 0, 0, 0, 1, 2])          # offset[4:0] = r
      if off % 4 == 0 and -24 <= off <= 24 and rng.random() < 0.5: base = p
      else:
        base = rng.choice(G); s.emit('addi', base, p, 0, 4 * rng.randint(-6, 6) - off)
      s.emit('sw', 0, base, rng.choice(G + [0]), off)
    elif kind == 'bne_nt':                                        # never taken: both operands the same register
      a = rng.choice([x for x in range(32) if x != r])
      off = r + 32 * rng.choice([0, 0, 1, 2]) if r % 2 == 0 else (r - 1) - 32 * rng.choice([1, 1, 2, 3])   # [4:1|11] = r
      s.emit('bne', 0, a, a, off)
    else:                                                         # taken forward branch over r/4 - 1 instructions
      p = rng.choice([x for x in P_REGS if x != r]); L = s.label()
      s.emit('bne', 0, *rng.choice([(p, 0), (0, p)]), L)
      for _ in range(r // 4 - 1): s.filler(G)
      s.items.append(('label', L))
    for _ in range(rng.choice([0, 1, 1, 1, 1, 2])): s.filler(G)   # consumer 1..3 slots behind (2 = M stage with 1-cycle memory)
    dst = rng.choice(G); a = rng.choice([x for x in range(32) if x != r])
    c = rng.choice(['rs2', 'rs2', 'rs2', 'rs1', 'both', 'sw_data', 'sw_data', 'bne_rs2', 'bne_rs1'])
    op = rng.choice(['add', 'and', 'sll', 'srl', 'add'])
    if c == 'rs2': s.emit(op, dst, a, r)
    elif c == 'rs1': s.emit(op, dst, r, a)
    elif c == 'both': s.emit(op, dst, r, r)
    elif c == 'sw_data': s.emit('sw', 0, rng.choice(P_REGS), r, 4 * rng.randint(-6, 6))
    else:
      L = s.label(); s.emit('bne', 0, *((a, r) if c == 'bne_rs2' else (r, a)), L)
      s.emit('addi', dst, dst, 0, 1); s.items.append(('label', L)); s.emit('addi', dst, dst, 0, 2)
    if rng.random() < 0.6: s.emit('csrw', 0, dst, 0, 0x7C0)

  def alias_program(s):
    """program made of false-producer patterns, registers preloaded with distinctive non-zero values"""
    rng = s.rng
    for p in P_REGS: s.emit('csrr', p, 0, 0, 0xFC0)
    for c in C_REGS: s.emit('addi', c, 0, 0, 0x300 + c)
    for r in G_REGS: s.emit('addi', r, 0, 0, 64 + r)
    while s.count < s.size:
      s.alias()
      for _ in range(rng.choice([0, 0, 1, 3, 5])): s.items.append(('nop',)); s.count += 1
    s.epilogue()
    return s.items

  def shadow(s):
    """an instruction with an architectural side effect right behind a branch (must be squashed when the branch is taken)"""
    rng = s.rng; c = rng.random()
    if c < 0.3: s.emit('csrr', s.dst() or 7, 0, 0, 0xFC0)
    elif c < 0.55: s.emit('csrw', 0, s.src(), 0, 0x7C0)
    elif c < 0.8: s.emit('sw', 0, rng.choice(P_REGS), s.src(), 4 * rng.randint(-6, 6))
    else: s.emit('lw', s.dst(), rng.choice(P_REGS), 0, 4 * rng.randint(-6, 6))

  def block(s, n, depth, plain=False):
    for _ in range(n):
      if s.count >= s.size: break
      if plain: s.emit(s.rng.choice(['add', 'and', 'sll', 'srl']), s.dst(), s.src(), s.src())
      else: s.one(depth)

  def program(s):
    rng = s.rng
    for p in P_REGS: s.emit('csrr', p, 0, 0, 0xFC0)
    for _ in range(rng.randint(2, 6)):
      if rng.random() < 0.6: s.emit('csrr', rng.choice(G_REGS[:10]), 0, 0, 0xFC0)
      else: s.emit('addi', rng.choice(G_REGS[:10]), 0, 0, rng.choice(IMMS))
    while s.count < s.size: s.one(0)
    s.epilogue()
    return s.items

def input_policy(rng):
  """value handed to `csrr rd, mngr2proc`, chosen when the oracle executes it"""
  def f(rd):
    if rd in P_REGS: return DATA + 4 * rng.randint(20, NDATA - 21)
    if rd in C_REGS: return rng.randint(1, 6)
    r = rng.random()
    if r < 0.5: return rng.choice(VALS)
    if r < 0.6: return DATA + 4 * rng.randint(0, NDATA - 1)
    return rng.getrandbits(32)
  return f

def to_text(items, data):
  lines = []
  for it in items:
    if it[0] == 'label': lines.append(f'{it[1]}:'); continue
    if it[0] == 'nop': lines.append('  nop'); continue
    name, rd, rs1, rs2, imm = it
    if name in ('add', 'and', 'sll', 'srl'): lines.append(f'  {name} x{rd}, x{rs1}, x{rs2}')
    elif name == 'addi': lines.append(f'  addi x{rd}, x{rs1}, {imm}')
    elif name == 'lw': lines.append(f'  lw x{rd}, {imm}(x{rs1})')
    elif name == 'sw': lines.append(f'  sw x{rs2}, {imm}(x{rs1})')
    elif name == 'bne': lines.append(f'  bne x{rs1}, x{rs2}, {imm}')
    elif name == 'csrr': lines.append(f'  csrr x{rd}, ' + ('mngr2proc' if imm == 0xFC0 else hex(imm)))
    elif name == 'csrw': lines.append(f'  csrw ' + ('proc2mngr' if imm == 0x7C0 else hex(imm)) + f', x{rs1}')
  lines.append('  .data')
  lines += [f'  .word {w:#010x}' for w in data]
  return '\n'.join(lines) + '\n'

def resolve(items):
  """instructions with labels replaced by pc-relative offsets: list of (pc, name, rd, rs1, rs2, imm)"""
  pc = TEXT; lab = {}
  for it in items:
    if it[0] == 'label': lab[it[1]] = pc
    else: pc += 4
  out = []; pc = TEXT
  for it in items:
    if it[0] == 'label': continue
    if it[0] == 'nop': out.append((pc, 'addi', 0, 0, 0, 0))
    else:
      name, rd, rs1, rs2, imm = it
      out.append((pc, name, rd, rs1, rs2, lab[imm] - pc if name == 'bne' and isinstance(imm, str) else imm))
    pc += 4
  return out

def image_words(mem_image):
  """[(addr, word)] of the .text and .data sections of an assembled image"""
  ws = []
  for sec in mem_image.get_sections():
    if sec.name in ('.text', '.data'):
      ws += [(sec.addr + 4 * i, w[0]) for i, w in enumerate(struct.iter_unpack('<I', bytes(sec.data)))]
  return ws

def gen_program(rng, size, fuel, family='mixed'):
  """rejection-sample a program that the ISA (the direct oracle) defines completely and that terminates.
  family: 'mixed' (everything), 'alias' (false-producer patterns only) 'xcel' (accelerator patterns) or 'membr' (memory operations right in front of branches).
  Returns dict(text, words, inp, insts, ref) with ref = oracle result."""
  for attempt in range(200):
    g = Gen(rng, size); items = {'alias': g.alias_program, 'xcel': g.xcel_program, 'membr': g.membr_program, 'mixed': g.program}[family]()
    data = [rng.choice(VALS) if rng.random() < 0.3 else rng.getrandbits(32) for _ in range(NDATA)]
    text = to_text(items, data)
    img = assemble(text)
    words = image_words(img)
    mem = bytearray(1 << 20)
    for a, w in words: mem[a:a + 4] = w.to_bytes(4, 'little')
    ref = isa_run(mem, input_policy(rng), fuel)
    end = TEXT + 4 * sum(1 for it in items if it[0] != 'label')
    if ref['stop'] != 'illegal' or ref['pc'] != end: continue
    if any(not (DATA <= a < DATA + 4 * NDATA) for a in ref['stores']): continue
    ref['mem'] = bytes(mem)
    return dict(text=text, words=words, inp=ref['inputs'], insts=resolve(items), ref=ref, attempts=attempt + 1)
  raise RuntimeError('program generator: no valid program in 200 attempts')

FAR_OFFSETS = [2044, 2048, 2052, 2560, 3000, 3584, 4088, 4092, -2044, -2048, -2052, -2560, -3000, -3584, -4092, -4096]
NEAR_OFFSETS = [1024, 1536, 2040, -1024, -1536, -2040, 512, -512]

def gen_far_program(rng, fuel):
  """"far branch" family: a few short segments scattered over up to ~1800 instruction slots (the text region is
  0x200..0x1fff), visited by TAKEN bne instructions whose byte offsets are drawn from FAR_OFFSETS (|offset| around and
  above 2048, where bit 11 and bit 12 of the B-immediate differ, up to the extremes -4096 / +4092), plus not-taken far
  branches. Every other slot holds the filler `addi x30, x30, 1`, so a branch to a wrong target either changes x30 / the
  segment trace or never reaches the epilogue. Same result dict as gen_program."""
  for attempt in range(200):
    N = rng.randint(1300, 1800)
    filler = ('addi', 30, 30, 0, 1)
    slots = [None] * N
    epi = [('csrw', 0, r, 0, 0x7C0) for r in range(1, 32)]
    E = len(epi); lim = N - E
    def place(at, seg):
      if at < 0 or at + len(seg) > lim or any(slots[k] is not None for k in range(at, at + len(seg))): return False
      slots[at:at + len(seg)] = seg; return True
    def segment(sid):
      seg = [('addi', 5, 5, 0, sid)]
      c = rng.random()
      if c < 0.4: seg.append(('sw', 0, 2, 5, 4 * rng.randint(-6, 6)))
      elif c < 0.6: seg.append(('lw', 6, 2, 0, 4 * rng.randint(-6, 6)))
      seg.append(('csrw', 0, 5, 0, 0x7C0))
      if rng.random() < 0.5: seg.append(('bne', 0, 0, 0, rng.choice(FAR_OFFSETS)))      # far, never taken
      return seg
    pro = [('addi', 1, 0, 0, 1), ('csrr', 2, 0, 0, 0xFC0)]
    at = 0; seg = pro + segment(1); ok = place(0, seg); hops = []
    nseg = rng.randint(3, 7)
    for sid in range(2, nseg + 2):
      bne_at = at + len(seg)                            # slot of the branch that leaves the current segment
      nxt = segment(sid)
      cands = rng.sample(FAR_OFFSETS, len(FAR_OFFSETS)) + rng.sample(NEAR_OFFSETS, len(NEAR_OFFSETS))
      for d in cands:
        if slots[bne_at] is None and place(bne_at + d // 4, nxt):
          slots[bne_at] = ('bne', 0, *rng.choice([(1, 0), (0, 1), (5, 0)]), d)
          hops.append(d); at = bne_at + d // 4; seg = nxt; break
      else:
        ok = False; break
    if not ok or not any(abs(d) >= 2048 for d in hops): continue
    bne_at = at + len(seg)
    if slots[bne_at] is not None: continue
    slots[bne_at] = ('bne', 0, 1, 0, 4 * (lim - bne_at))  # last hop: forward to the epilogue
    hops.append(4 * (lim - bne_at))
    slots[lim:] = epi
    items = [x if x is not None else filler for x in slots]
    data = [rng.getrandbits(32) for _ in range(NDATA)]
    text = to_text(items, data)
    img = assemble(text)
    words = image_words(img)
    mem = bytearray(1 << 20)
    for a, w in words: mem[a:a + 4] = w.to_bytes(4, 'little')
    ref = isa_run(mem, input_policy(rng), fuel)
    if ref['stop'] != 'illegal' or ref['pc'] != TEXT + 4 * N: continue
    if any(not (DATA <= a < DATA + 4 * NDATA) for a in ref['stores']): continue
    ref['mem'] = bytes(mem)
    insts = [(TEXT + 4 * k, *it) for k, it in enumerate(items)]
    return dict(text=text, words=words, inp=ref['inputs'], insts=insts, ref=ref, attempts=attempt + 1, hops=hops)
  raise RuntimeError('far-branch generator: no valid program in 200 attempts')

#=========================================================================
# Running the real processors
#=========================================================================

class RecSinkCL(TestSinkCL):
  """TestSinkCL with the same ready/delay behaviour that records what it receives instead of
  comparing it with an expected list."""
  @non_blocking(lambda s: s.count == 0)
  def recv(s, msg):
    assert s.count == 0
    if not hasattr(s, 'got'): s.got = []
    s.got.append(int(msg))
    s.recv_called = True

@contextlib.contextmanager
def patched_sink(module):
  old = module.TestSinkCL
  module.TestSinkCL = RecSinkCL
  try: yield
  finally: module.TestSinkCL = old

def run_proc(level, text, inp, cfg, nout, extra=40, max_cycles=200000):
  """Assemble `text` with the repo's assembler, run it on Proc<level> in the repo's TestHarness under the
  timing configuration cfg = (src_delay, sink_delay, mem_stall_prob, mem_latency). Stops `extra` cycles after
  the sink has received `nout` messages and the source is drained (or at max_cycles).
  Returns dict(out, mem, commits, cycles, status)."""
  src_delay, sink_delay, stall, lat = cfg
  with patched_sink(proc_harness):
    th = proc_harness.TestHarness(PROCS[level], src_delay=src_delay, sink_delay=sink_delay,
                                  mem_stall_prob=stall, mem_latency=lat)
    th.elaborate()
  img = assemble(text)
  if inp:
    img.add_section(SparseMemoryImage.Section('.mngr2proc', 0x13000, bytearray(b''.join(struct.pack('<I', v) for v in inp))))
  th.load(img)
  sink = th.sink; sink.got = []
  status = 'ok'; commits = 0; commits_at_last = None; cycles = 0; tail = None
  try:
    with contextlib.redirect_stdout(io.StringIO()):
      th.apply(DefaultPassGroup())
      th.sim_reset()
      while cycles < max_cycles:
        th.sim_tick(); cycles += 1
        commits += int(th.commit_inst)
        if tail is None:
          if len(sink.got) >= nout and th.src.done():
            tail = extra; commits_at_last = commits
        else:
          tail -= 1
          if tail <= 0: break
      else:
        status = 'timeout'
  except Exception as e:
    status = f'exception {type(e).__name__}: {str(e)[:200]}'
  n = (1 << 20) - 1
  return dict(out=list(sink.got), mem=bytes(th.mem.read_mem(0, n)), commits=commits_at_last, cycles=cycles,
              status=status, src_left=len(th.src.msgs))

#=========================================================================
# Checksum units
#=========================================================================

def cksum_spec(words):
  s1 = s2 = 0
  for w in words:
    s1 = (s1 + w) % 65536
    s2 = (s2 + s1) % 65536
  return (s2 << 16) | s1

def run_cksum_units(inputs, rng):
  """FL function per input; CL and RTL units each in ONE simulation of the repo's CL src/sink test harness
  fed with all inputs under random src/sink delays. Returns dict level -> list of results (or status str)."""
  from examples.ex02_cksum.ChecksumFL import checksum
  from examples.ex02_cksum.ChecksumCL import ChecksumCL
  from examples.ex02_cksum.ChecksumRTL import ChecksumRTL
  from examples.ex02_cksum.utils import words_to_b128
  import examples.ex02_cksum.test.ChecksumCL_test as cl_test
  res = {'FL': [int(checksum([b16(w) for w in ws])) for ws in inputs]}
  msgs = [words_to_b128([b16(w) for w in ws]) for ws in inputs]
  for level, dut in (('CL', ChecksumCL), ('RTL', ChecksumRTL)):
    with patched_sink(cl_test):
      th = cl_test.TestHarness(dut, list(msgs), [])
      th.set_param('top.src.construct', initial_delay=rng.randint(0, 5), interval_delay=rng.randint(0, 3))
      th.set_param('top.sink.construct', initial_delay=rng.randint(0, 5), interval_delay=rng.randint(0, 3))
      th.elaborate()
    th.sink.got = []
    try:
      with contextlib.redirect_stdout(io.StringIO()):
        th.apply(DefaultPassGroup()); th.sim_reset()
        cycles = 0; tail = None
        while cycles < 50 + 40 * len(msgs):
          th.sim_tick(); cycles += 1
          if tail is None and len(th.sink.got) >= len(msgs) and th.src.done(): tail = 10
          elif tail is not None:
            tail -= 1
            if tail <= 0: break
      res[level] = list(th.sink.got)
    except Exception as e:
      res[level] = f'exception {type(e).__name__}: {str(e)[:200]}'
  return res
