"""C02 — within a cycle every reader runs after its writer, in every scheduler.

proof:          lean/PymtlVerif/Props/C02.lean (overlap exact at bit level; topoB <=> writer-before-reader; Kahn with any
                tie-break is sound and its leftovers contain a cycle)
                lean/PymtlVerif/Props/C02m.lean (method constraints: the block pairs GenDAGPass._process_methods adds, see c02_methods.py)
correspondence: (a) model deps (bit overlap) vs the implementation's _dag.all_constraints; (b) every pass's schedule
                checked by the model's topoB; (c) run-time call order recorded with sys.setprofile; (d) SimpleSchedulePass
                schedule replayed through the model's Kahn; (e) explicit U<U constraints, inversions and pure explicit cycles;
                (f) method constraints: c02_methods.run (model `process` vs the pairs the pass adds; schedule and run-time call order);
                (g) blocking (FL) blocks wrapped by WrapGreenletPass: c02_greenlet.run (execution trace per cycle under four pass groups);
                (h) open-loop schedule with top-level callee ports (OpenLoopCLPass): c02_openloop.run
direct oracle:  positions in the real schedules / real call order vs bit overlap computed independently in Python (rtlgen.py_deps)
"""
import sys

from ..common import leanio, rtlgen
from ..common.leanio import InfraError
from . import c02_methods, c02_gendag, c02_greenlet, c02_openloop, c02_callgraph

PID = 'C02'
DRIVERS = ['rtl']
MODULE = ['PymtlVerif.Props.C02', c02_methods.MODULE]
THEOREMS = ['PV.C02.' + t for t in ['overlap_spec', 'rngsOverlap_spec', 'rngsOverlap_comm', 'topo_iff_writer_before_reader',
                                    'kahn_sound', 'kahn_leftover']] + c02_methods.THEOREMS
THEOREM_MODULE = {t: c02_methods.MODULE for t in c02_methods.THEOREMS}
TRUSTED = [
  'OpenLoopCLPass: the mapping actual method -> top-level CalleePort -> rdy guard and the wrapper indices (my_idx_orig / my_idx_new) are unmodelled; the harness reconstructs the schedule from those wrapper closures and judges it against the constraints as declared in the source (c02_openloop.declared_pairs), so an error in the mapping shows as a violated declared constraint, not as a model disagreement',
  'Model/Methods.lean stands for GenDAGPass._process_methods; its input is read off the elaborated design by c02_methods.Extract with the same port/interface -> actual method translation as the pass (dict/set semantics of the method objects)',
  'Model/Rtl.lean footprints: whole signals, fields and slices are bit ranges of the top-level signal; explicit constraints are handled by the harness oracle, not by the Lean model',
  'Kahn model (Model/Kahn.lean) with an arbitrary tie-break oracle stands for SimpleSchedulePass/HeuristicTopoPass.schedule_intra_cycle',
]
ASSUMPTIONS = [
  'method constraints: GenDAGPass._process_methods is modelled (Model/Methods.lean: == classes by flood fill, pred/succ maps, per-method search with direction w, the four exclusions) and proved (Props/C02m.lean: process_exact = exact characterisation of the added block pairs for any number of hops; sound; complete for direct M<M / U<M / M<U constraints through == classes on both sides; complete along search walks; schedule corollaries incl. Kahn with any tie-break); tied to the code by comparing the added pairs on stdlib CL designs and generated method-port components (harness/checks/c02_methods.py)',
  'PARTIAL (method clause): not proved and not true of the code — ordering through a chain that passes through a constrained BLOCK is only obtained by composing the two added pairs; exclusions are evaluated on the last hop only; acyclicity of the result is not claimed (cycles are rejected by the scheduler). Not modelled: CLLineTracePass wrappers (switched off in the generated-method designs so that method identities stay those the DAG pass used; the queue probe runs with them on)',
  'blocking FL interfaces / greenlet wrapping: WrapGreenletPass (renaming of the wrapped blocks in all_constraints / final_upblks) is NOT modelled in Lean; it is exercised by harness/checks/c02_greenlet.py: generated designs with >= 2 greenlet-wrapped update_once blocks joined by value edges, explicit U<U and stdlib-queue M<M pairs, under SimpleSimPass / DefaultPassGroup / UnrollSim / Mamba2020, with the per-cycle execution-trace oracle (each block once, writer before reader, explicit and method pairs honoured, same-cycle values) and the structural tie (every end-point of all_constraints is in final_upblks; pairs mapped back to blocks compared with the method model)',
  'open-loop simulation (OpenLoopCLPass / AutoTickSimPass): NOT modelled in Lean — neither top_level_callee_constraints (the pairs of actual methods GenDAGPass collects for top-level callees) nor the pass\'s translation of raw methods to CalleePort vertices and of a non-blocking method to its rdy guard; exercised by harness/checks/c02_openloop.py: generated tops with 1-4 callee ports and 1-4 blocks with U<M, M<U, M<M, M==M constraints (an == class on one side of a < only) and the stdlib CL queues as top, 10+ re-seeded repetitions each; the installed schedule (read from the wrapper closures) and the execution log of random call sequences are checked against the DECLARED constraints (ports / blocks as given to add_constraints); the block pairs for non-top methods are tied to Model/Methods.process as elsewhere; any topological order is acceptable (PV.C02.kahn_sound, PV.C11s)',
  'struct fields are not generated here (bit ranges via slices only); nested-field footprints are covered by the theorem about ranges',
]
RULE = ('method clause: stdlib CL chains (1-3 of Pipe/Bypass/Normal/DelayPipeDeq queues, optional StallCL front, deq / deq-side pass-through / DelayPipeSendCL tail, shuffled block order), '
        'MagicMemoryCL harnesses, generated components with 2-5 method nodes, 2-5 update_once blocks, caller components and random M<M, M==M, U<M, M<U '
        'constraints (consistent-by-rank, free, exclusion-aimed, rings that must be rejected); non-trivial = the pass adds a pair or rejects the design. '
        'C01 designs plus designs decorated with explicit U<U constraints (ordering, inversion of an implicit pair, pure explicit 2-cycles); '
        'a case = (design, pass group); non-trivial = at least one dependency edge; distinct by (source, flow)')

# ---- begin: translator-based tie of the slice-overlap test (tools/py2lean_overlap.py; Gen/OverlapGen.lean is regenerated
# from pymtl3/dsl/Connectable.py before the build, Props/C02Gen.lean proves generated `_overlap` = model `Rng.overlap`)
MODULE = MODULE + ['PymtlVerif.Props.C02Gen']
THEOREMS = THEOREMS + ['PV.C02Gen.gen_overlap_eq']
THEOREM_MODULE['PV.C02Gen.gen_overlap_eq'] = 'PymtlVerif.Props.C02Gen'
TRUSTED = TRUSTED + ['tools/py2lean_overlap.py (translator, same core and trusted subset as tools/py2lean_bits.py, see the TRUSTED line of C04): `_overlap` / `Signal.slice_overlap` of Connectable.py are regenerated as Gen/OverlapGen.lean; a slice is its three bounds (None or int; ordering None against an int is TypeError), a Signal is the identity of its parent object plus its _dsl.slice; proved equal to Rng.overlap for non-empty slices (lo < hi, which Signal.__getitem__ asserts)']
def pregen(ck):
  import importlib.util, os
  path = os.path.join(leanio.VERIF, 'tools', 'py2lean_overlap.py')
  spec = importlib.util.spec_from_file_location('py2lean_overlap', path)
  mod = importlib.util.module_from_spec(spec); spec.loader.exec_module(mod)
  return mod.pregen()
# ---- end: translator-based tie
# ---- begin: value-constraint model (Model/GenDag.lean, Props/C02d.lean, harness/checks/c02_gendag.py)
DRIVERS = DRIVERS + c02_gendag.DRIVERS
MODULE = MODULE + [c02_gendag.MODULE]
THEOREMS = THEOREMS + c02_gendag.THEOREMS
THEOREM_MODULE.update({t: c02_gendag.MODULE for t in c02_gendag.THEOREMS})
TRUSTED = TRUSTED + c02_gendag.TRUSTED
ASSUMPTIONS = ASSUMPTIONS + c02_gendag.ASSUMPTIONS
RULE = RULE + '; ' + c02_gendag.RULE
# ---- begin: @s.func call expansion (Model/CallGraph.lean, Props/C02c.lean, harness/checks/c02_callgraph.py)
DRIVERS = DRIVERS + c02_callgraph.DRIVERS
MODULE = MODULE + [c02_callgraph.MODULE]
THEOREMS = THEOREMS + c02_callgraph.THEOREMS
THEOREM_MODULE.update(c02_callgraph.THEOREM_MODULE)
TRUSTED = TRUSTED + c02_callgraph.TRUSTED
ASSUMPTIONS = ASSUMPTIONS + c02_callgraph.ASSUMPTIONS
RULE = RULE + '; ' + c02_callgraph.RULE
# ---- end
# ---- end: value-constraint model
# ---- begin: openloop model (Model/OpenLoop.lean, Props/C02o.lean, driver pv_openloop, harness/checks/c02_openloop.py)
DRIVERS = DRIVERS + c02_openloop.DRIVERS
MODULE = MODULE + [c02_openloop.MODULE]
THEOREMS = THEOREMS + c02_openloop.THEOREMS
THEOREM_MODULE.update(c02_openloop.THEOREM_MODULE)
# the two statements above that called the open-loop scheduler unmodelled are superseded by the sub-module's own
TRUSTED = [t for t in TRUSTED if not t.startswith('OpenLoopCLPass: the mapping actual method')] + c02_openloop.TRUSTED
ASSUMPTIONS = [a for a in ASSUMPTIONS if not a.startswith('open-loop simulation (OpenLoopCLPass / AutoTickSimPass): NOT modelled')] + c02_openloop.ASSUMPTIONS
RULE = RULE + '; ' + c02_openloop.RULE
# ---- end: openloop model
# ---- begin: astrw — read / write / call extraction from update-block source (Model/AstRW.lean, Props/C02a.lean, driver pv_astrw, harness/checks/c02_astrw.py)
from . import c02_astrw
DRIVERS = DRIVERS + c02_astrw.DRIVERS
MODULE = MODULE + [c02_astrw.MODULE]
THEOREMS = THEOREMS + c02_astrw.THEOREMS
THEOREM_MODULE.update(c02_astrw.THEOREM_MODULE)
TRUSTED = TRUSTED + c02_astrw.TRUSTED
ASSUMPTIONS = ASSUMPTIONS + c02_astrw.ASSUMPTIONS
RULE = RULE + '; ' + c02_astrw.RULE
# ---- end: astrw

FLOWS = ['default', 'simple', 'heutopo', 'mamba', 'unroll']

def record_calls(rs, fn):
  """call fn() while recording the order in which update blocks (by model id) are invoked"""
  code2id = {}
  for blk, i in rs.blk2id.items():
    code2id[blk.__code__] = i
  calls = []
  def prof(frame, event, arg):
    if event == 'call':
      i = code2id.get(frame.f_code)
      if i is not None: calls.append(i)
  sys.setprofile(prof)
  try:
    fn()
  finally:
    sys.setprofile(None)
  return calls

def check_positions(order, edges):
  """edges (a,b) that the order violates (a not before b), and blocks not occurring exactly once"""
  pos = {}
  dup = []
  for k, i in enumerate(order):
    if i in pos: dup.append(i)
    pos[i] = k
  bad = [(a, b) for (a, b) in edges if a in pos and b in pos and not pos[a] < pos[b]]
  return bad, dup

def process_plain(ck, d, lines, meta):
  src = d.source()
  cls = rtlgen.load_class(ck.workdir, d)
  pdeps = rtlgen.py_deps(d)
  comb_ids, ff_ids = d.comb_ids(), d.ff_ids()
  cycles = rtlgen.gen_inputs(ck.rng, d, 2)
  first = True
  for flow in FLOWS:
    rs = rtlgen.RealSim(cls, d, flow)
    entries = rs.schedule_entries()
    order = [e[1] for e in entries if e[0] == 'b']
    case = {'src_hash': hash(src) & 0xffffffff, 'flow': flow}
    ck.count(case, nontrivial=bool(pdeps))
    ck.hist('flow', flow); ck.hist('edges', min(len(pdeps), 12))
    if any(e[0] != 'b' for e in entries):
      ck.disagreement('schedule-entry-kind', {'source': src, 'flow': flow}, 'all single blocks', str(entries)); continue
    # direct oracle 1: static schedule positions
    bad, dup = check_positions(order, pdeps)
    missing = sorted(set(comb_ids) - set(order))
    if bad or dup or missing:
      ck.violation('schedule-order', {'flow': flow, 'what': 'reader-before-writer' if bad else 'not-exactly-once'},
                   {'source': src, 'flow': flow}, {'schedule': order, 'violated_edges': bad, 'duplicates': dup, 'missing': missing,
                    'oracle': 'every block exactly once; writer of a bit before every reader of that bit'})
    # direct oracle 2: run-time call order
    rs.set_inputs(cycles[0])
    calls = record_calls(rs, rs.top.sim_eval_combinational)
    bad, dup = check_positions(calls, pdeps)
    if bad or dup or sorted(calls) != sorted(comb_ids):
      ck.violation('runtime-order', {'flow': flow, 'phase': 'eval_comb'}, {'source': src, 'flow': flow},
                   {'calls': calls, 'violated_edges': bad, 'duplicates': dup, 'expected_blocks': sorted(comb_ids)})
    calls = record_calls(rs, rs.top.sim_tick)
    n = len(comb_ids)
    p1, mid, p2 = calls[:n], calls[n:len(calls) - n], calls[len(calls) - n:]
    ok = (sorted(p1) == sorted(comb_ids) and sorted(p2) == sorted(comb_ids) and sorted(mid) == sorted(ff_ids)
          and not check_positions(p1, pdeps)[0] and not check_positions(p2, pdeps)[0])
    if not ok:
      ck.violation('runtime-order', {'flow': flow, 'phase': 'tick'}, {'source': src, 'flow': flow},
                   {'calls': calls, 'comb': sorted(comb_ids), 'ff': sorted(ff_ids),
                    'oracle': 'sim_tick = comb pass (each block once, in dependency order), ff blocks once, comb pass'})
    # model side
    if first:
      lines.append(leanio.line('rtl', 'check', d.sexp())); meta.append(('deps', d, rs, src, pdeps))
      first = False
    lines.append(leanio.line('rtl', 'topo', d.sexp(), order)); meta.append(('topo', d, flow, src, order))
    if flow == 'simple':
      E = sorted(rtlgen.real_edges(rs))
      lines.append(leanio.line('rtl', 'kahn', comb_ids, [list(e) for e in E], order)); meta.append(('kahn', d, flow, src, order))

def process_explicit(ck, d, kind, info):
  src = d.source()
  cls = rtlgen.load_class(ck.workdir, d)
  pdeps = rtlgen.py_deps(d)
  from pymtl3.dsl.errors import UpblkCyclicError
  for flow in FLOWS:
    case = {'src_hash': hash(src) & 0xffffffff, 'flow': flow, 'explicit': kind}
    ck.count(case, True); ck.hist('explicit', kind)
    try:
      rs = rtlgen.RealSim(cls, d, flow)
      err = None
    except UpblkCyclicError:
      err = 'UpblkCyclicError'; rs = None
    except Exception as e:
      err = type(e).__name__ + ': ' + str(e)[:200]; rs = None
    if kind == 'cycle':
      if err != 'UpblkCyclicError':
        if rs is not None:
          # Was the cycle really free of value-carrying signals in the IMPLEMENTATION's dependency analysis (which may
          # record conservative reads, e.g. every element for a signal-valued index)?  If the two blocks are also linked by
          # a value edge, iterating the group is the specified behaviour, not a violation.  (That analysis itself is
          # compared with the model elsewhere: deps⊆all_constraints, Props/C02d.)
          E = rtlgen.real_edges(rs) - set(d.explicit)
          a, b = info[1], info[2]
          if rtlgen.reachable(E, a, b) or rtlgen.reachable(E, b, a):
            ck.hist('explicit', 'cycle-with-value-edge'); continue
        ck.violation('explicit-cycle-accepted', {'flow': flow}, {'source': src, 'flow': flow},
                     {'outcome': err or 'scheduled', 'oracle': 'a cycle among explicit constraints with no value-carrying signal must raise UpblkCyclicError'})
      continue
    if err is not None:
      if err == 'UpblkCyclicError':
        # legal only if the explicit edge closes no cycle in the IMPLEMENTATION's constraint graph (whose reads may be
        # conservative): read that graph from the cycle-tolerant default flow and look for a value path the other way
        try:
          rs0 = rtlgen.RealSim(cls, d, 'default')
          E0 = rtlgen.real_edges(rs0) - set(d.explicit)
          x, y = info[1], info[2]                 # the explicit edge x -> y
          if rtlgen.reachable(E0 - {(y, x)}, y, x):
            ck.hist('explicit', kind + '-closes-a-value-cycle'); continue
        except Exception:
          pass
      ck.violation('legal-constraints-rejected', {'flow': flow, 'kind': kind}, {'source': src, 'flow': flow}, {'outcome': err})
      continue
    expected = set(pdeps)
    if kind == 'invert': expected.discard((info[2], info[1]))
    expected |= set(d.explicit)
    order = [e[1] for e in rs.schedule_entries() if e[0] == 'b']
    bad, dup = check_positions(order, expected)
    calls = record_calls(rs, rs.top.sim_eval_combinational)
    bad2, dup2 = check_positions(calls, expected)
    if bad or dup or bad2 or dup2 or sorted(calls) != sorted(d.comb_ids()):
      ck.violation('explicit-constraint-order', {'flow': flow, 'kind': kind}, {'source': src, 'flow': flow},
                   {'schedule': order, 'calls': calls, 'violated': bad + bad2, 'explicit': d.explicit,
                    'oracle': 'explicit U<U constraints are honoured; an explicit constraint inverts the implicit pair'})

CL_SRC = '''from pymtl3 import *
from pymtl3.stdlib.queues.cl_queues import PipeQueueCL, BypassQueueCL, NormalQueueCL
class ClTop{uid}( Component ):
  def construct( s ):
    s.q = {Q}( {n} )
    s.cnt = 0
    s.got = []
{blocks}
'''
CL_BLK_SRC = '''    @update_once
    def up_src():
      if s.q.enq.rdy():
        s.q.enq( s.cnt ); s.cnt += 1
'''
CL_BLK_SNK = '''    @update_once
    def up_snk():
      if s.q.deq.rdy():
        s.got.append( s.q.deq() )
'''

def method_constraint_probe(ck):
  """explicit METHOD ordering constraints (M(x) < M(y)) of the CL queues are honoured by the scheduler whatever the
  textual order of the calling blocks: pipe = deq before enq, bypass = enq before deq (with CLLineTracePass wrappers on;
  the model-based check of _process_methods is c02_methods.py)"""
  import importlib.util, os
  from pymtl3.passes.PassGroups import DefaultPassGroup
  for Q, first in [('PipeQueueCL', 'deq'), ('BypassQueueCL', 'enq')]:
    for n in (1, 2, 3):
      for swap in (0, 1):
        uid = next(rtlgen._uid)
        blocks = (CL_BLK_SNK + CL_BLK_SRC) if swap else (CL_BLK_SRC + CL_BLK_SNK)
        src = CL_SRC.format(uid=uid, Q=Q, n=n, blocks=blocks)
        path = os.path.join(ck.workdir, f'pvcl_{os.getpid()}_{uid}.py')
        with open(path, 'w') as f: f.write(src)
        spec = importlib.util.spec_from_file_location(f'pvcl_{uid}', path); mod = importlib.util.module_from_spec(spec)
        sys.modules[f'pvcl_{uid}'] = mod; spec.loader.exec_module(mod)
        top = getattr(mod, f'ClTop{uid}')(); top.elaborate(); top.apply(DefaultPassGroup())
        calls = []
        def prof(frame, event, arg):
          if event == 'call' and frame.f_code.co_name in ('enq', 'deq') and 'cl_queues' in frame.f_code.co_filename:
            calls.append(frame.f_code.co_name)
        bad = None
        for cyc in range(8):
          del calls[:]
          sys.setprofile(prof)
          try: top.sim_tick()
          finally: sys.setprofile(None)
          if 'enq' in calls and 'deq' in calls and calls.index(first) != 0:
            bad = (cyc, list(calls)); break
        ck.count({'cl': Q, 'n': n, 'swap': swap}, True); ck.hist('method_probe', Q)
        if bad or top.got != list(range(len(top.got))):
          ck.violation('method-constraint-order', {'queue': Q}, {'source': src},
                       {'cycle_calls': bad, 'received': top.got,
                        'oracle': f'{Q}: every cycle the {first} call precedes the other; messages arrive in order'})

def run(ck):
  rng = ck.rng
  method_constraint_probe(ck)
  c02_methods.run(ck)
  c02_greenlet.run(ck)      # blocking (FL) blocks: WrapGreenletPass re-keying of all_constraints, every pass group
  n = 200 if ck.tier == 'quick' else 1500
  lines, meta = [], []
  for _ in range(n):
    d = rtlgen.generate_slices(rng) if rng.random() < 0.3 else rtlgen.generate(rng, max_blocks=8)
    process_plain(ck, d, lines, meta)
  replies = ck.drv('rtl').batch(lines)
  for (kind, d, x, src, y), rep in zip(meta, replies):
    if kind == 'deps':
      rs, pdeps = x, y
      tree = leanio.parse_sexp(rep.split('deps', 1)[1])[0]
      comb = set(d.comb_ids())
      mdeps = {(int(a), int(b)) for a, b in tree if int(a) in comb and int(b) in comb}
      redges = rtlgen.real_edges(rs)
      redges = {(a, b) for (a, b) in redges if a in comb and b in comb}
      if mdeps != pdeps:
        ck.disagreement('Model deps≈python bit overlap', {'source': src}, sorted(mdeps), sorted(pdeps))
      miss = sorted(mdeps - redges)
      if miss:
        # a dependency the implementation does not know: show it as a failing schedule if possible
        found = None
        for order in rtlgen.linear_extensions(ck.rng, sorted(comb), redges, 30):
          bad, _ = check_positions(order, pdeps)
          if bad: found = (order, bad); break
        if found:
          ck.violation('missing-dependency-edge', {'what': 'legal-for-implementation schedule runs a reader before its writer'},
                       {'source': src, 'schedule': found[0]}, {'violated_edges': found[1], 'missing_edges': miss,
                        'oracle': 'a linear extension of the implementation\'s own constraint graph puts a reader before its writer'})
        else:
          ck.disagreement('deps⊆all_constraints', {'source': src}, miss, 'absent from _dag.all_constraints')
      ck.hist('extra_real_edges', min(len(redges - mdeps), 5))
    elif kind == 'topo':
      if rep != 'topo 1 1':
        ck.disagreement('topoB(real schedule)', {'source': src, 'flow': x, 'order': y}, rep, 'scheduled by ' + x)
    elif kind == 'kahn':
      got = [int(t) for t in leanio.parse_sexp(rep.split('ref')[0].split('order', 1)[1])[0]]
      if got != y:
        ck.disagreement('SimpleSchedulePass≈Kahn(any pick)', {'source': src, 'order': y}, got, y)
  # explicit constraints
  m = 60 if ck.tier == 'quick' else 400
  made = 0
  tries = 0
  while made < m and tries < m * 6:
    tries += 1
    d = rtlgen.generate(rng, max_blocks=8, with_children=(rng.random() < 0.3))
    kind = rng.choice(['order', 'invert', 'cycle'])
    info = rtlgen.add_explicit(d, kind)
    if info is None: continue
    made += 1
    process_explicit(ck, d, kind, info)
  ck.extra_cov['plain_designs'] = n
  ck.extra_cov['explicit_designs'] = made
  c02_gendag.run(ck)
  # last on purpose: ck.count draws from ck.rng, so a stream inserted earlier would change the designs of the streams above
  c02_openloop.run(ck)      # open-loop (AutoTickSimPass) schedule with top-level callee ports vs the declared constraints
  c02_callgraph.run(ck)     # expansion of @s.func helper calls into the calling block's read/write sets
  c02_astrw.run(ck)         # astrw: the read / write / call sets extracted from the source of update blocks (AstHelper)

def replay(ck, data):
  print(data.get('kind'), data.get('signature')); print(str(data.get('detail'))[:1500])
  if (data.get('case') or {}).get('gendag'): return c02_gendag.replay(ck, data['case'])
  if (data.get('case') or {}).get('methods'): return c02_methods.replay(ck, data['case'])
  if (data.get('case') or {}).get('greenlet'): return c02_greenlet.replay(ck, data['case'])
  if (data.get('case') or {}).get('openloop'): return c02_openloop.replay(ck, data['case'])
  if (data.get('case') or {}).get('callgraph'): return c02_callgraph.replay(ck, data['case'])
  if (data.get('case') or {}).get('astrw'): return c02_astrw.replay(ck, data['case'])   # astrw
  return rtlgen.replay_source(ck, data.get('case') or {})
