"""C15 — replacing a component yields the same design as building it directly.

proof:          lean/PymtlVerif/Props/C15.lean  (model: lean/PymtlVerif/Model/Meta.lean, lemmas Proofs/Meta.lean)
correspondence: random component hierarchies (c15_util.Gen) written as real module files; on ONE elaborated top a
                sequence of 1-4 `replace_component` (class) / `replace_component_with_obj` (instance) calls at any depth /
                list position (also inside subtrees installed by earlier steps, also the same path twice). After every
                step every queryable whole-design container is rendered by name (c15_util.observe) and compared with
                (i) a from-scratch build of the hierarchy with the replacements in place and (ii) the model:
                `replaceAll (elaborate H) rs`, `elaborate (setAll H rs)` (pv_meta). `_delete_component` alone is
                compared with the model's `delete` (what is left, what is saved). Finally both designs are simulated
                under DefaultPassGroup with the same inputs and ALL signal values are compared by name every cycle.
direct oracle:  (never looks at the model) replaced design's metadata == from-scratch design's metadata, field by
                field; traces equal; `c15_util.scan`: no object held by a metadata container of the top or of a live
                component is named `<deleted>…`, is unreachable by a fresh traversal from the top, is a constant no
                live component owns, or is an update block / function no live component declares.

Every way in which the real code falls short is reported as its own violation with a stable signature:
  {'leftover': 'update_once'}              all_update_once keeps the removed blocks (no ComponentLevel4._uncollect_vars);
                                           also changes the simulation (top is no longer "pure RTL")
  {'leftover': 'M_constraints'}            all_M_constraints keeps the removed component's constraints (same cause)
  {'leftover': 'adjacency_const'}          a removed component's Const stays a key of all_adjacency (-> <deleted> signal)
  {'leftover': 'RD_WR_U_empty_key'}        the removed signal stays a key (with an empty set) of all_RD_U/WR_U_constraints
  {'leftover': 'parent_value_constraint'}  RD(x)/WR(x) constraint of a surviving component on a removed signal keeps the old object
  {'leftover': 'parent_M_constraint'}      same for M(x) of a removed method port
  {'leftover': 'parent_connect_order'}     parent connect_order keeps (caller, <deleted> callee) ("TODO method port")
  {'leftover': 'ancestor_block_ref'} / {'raises': ...}  a block above the parent that reads a removed port is not updated
  {'lost': 'loopback_connection'}          a parent-level connection between two ports of the replaced child is dropped
  {'leftover': 'parent_UU_constraint'}     U(x) < U(y) of a surviving component on a block of the replaced child keeps the removed block
  {'lost': 'needs_double_buffer'}          a parent update_ff block writes an input port of the replaced child: the new port is not marked
  {'lost': 'slice_signal'}                 a slice of a child port referenced from the parent is missing from all_signals / all_named_objects
  {'leftover': 'parent_const'}             the parent's Const tied to a removed port stays in parent consts / as an empty adjacency key
  {'leftover': 'interface'}                Interface objects of the removed subtree stay (all_named_objects, parent upblk_calls), new ones are not added
All but the first four and parent_const need hierarchies outside the random generator's discipline and come from the directed batch only.
"""
import copy, json, random

from pymtl3 import Bits8, DefaultPassGroup

from ..common import leanio
from ..common.check import h12
from ..common.leanio import InfraError
from . import c15_util as U

PID = 'C15'
DRIVERS = ['meta']
MODULE = 'PymtlVerif.Props.C15'
THEOREMS = ['PV.C15.' + t for t in [
  'replace_eq_build_raw', 'replace_eq_build', 'replace_incompatible', 'replace_eq_build_of_equiv',
  'delete_clean', 'result_touching', 'nothing_left', 'sequence', 'sequence_elab',
  'saved_from_parent', 'forest_set_flatten', 'replace_eq_build_tree']]
TRUSTED = [
  'Model/Meta.lean is a BY-NAME model: an object is its path from the top, the top-level containers are one list of tagged '
  'entries read as a set (theorems state equality of the entry sets, `Equiv`), a hierarchy is the family of local component '
  'descriptors indexed by path (`Forest.flatten` ties it to an inductive tree); object identity, Python set/dict aliasing '
  '(all_upblk_reads[blk] IS parent._dsl.upblk_reads[blk]) and the construction of the new objects are exercised by the '
  'correspondence check, not modelled',
  'value nets / method nets are recomputed from scratch by pymtl3 after every replacement (_resolve_value_connections) from '
  'all_signals, all_adjacency and all_upblk_writes; the driver derives them the same way from the sorted dump (plain '
  'signals only); the theorems cover their inputs, the nets themselves are compared with the real ones only',
  'the simulator is exercised (DefaultPassGroup, all signals compared every cycle), not modelled',
  'per-object hierarchy metadata: (lvl name level parent host) of components / signals / method ports is derived in the driver '
  'from the by-name entries (level = number of path segments; a signal sits one below its host, which is its parent) and '
  'compared with the real get_component_level() / _dsl.level / get_parent_object() / get_host_component(); the full '
  "per-object record (field 'obj': also interfaces and slices, is_top_level_signal, top-level signal, full_name vs repr, "
  'my_name) is compared between the replaced and the from-scratch design by the direct oracle only',
  'the model is the INTENDED behaviour where the code was shown defective (see the module docstring); on those inputs the '
  'direct oracle reports the violation and the model comparison skips only the stale entries it reported',
]
ASSUMPTIONS = [
  'replacement is compatible: every port / method / block of the old component that a surviving component mentions exists in '
  'the new one (`Compatible`; otherwise `add` = none, Python raises in eval of the saved name) — generated replacements have '
  'the same port signature',
  'NoLoopAt: no surviving component connects two signals that are both under the replaced path (shown lost on the real code: '
  "{'lost': 'loopback_connection'})",
  'generated hierarchies: Bits8 ports and wires, plain signals (no structs / slices / interfaces), update / update_ff / '
  'update_once blocks, @s.func, callee method ports, constants, children in attributes and lists, depth <= 4',
]
RULE = ('random: top with 1-3 inputs / 1-2 outputs, depth 1-3, children in attributes and lists, 1-4 replacement steps '
        '(class / instance), every step at a random existing non-top path of the CURRENT hierarchy; directed: one minimal '
        'hierarchy per known failure mode and per feature. One case = one hierarchy + one replacement sequence; a case is '
        'non-trivial if the removed subtree carried at least one of: update_once, M constraint, constant, RD/WR/U constraint, '
        'nested child, or a parent block / constant crossing its boundary')

# generator features that stay off while the code is known to mishandle them (a directed case covers each):
#   ffkid: probability that an input port of a child is driven by a parent update_ff block -> {'lost': 'needs_double_buffer'}
FEAT = {'ffkid': 0.15}

MARKERS = ('<deleted>', '<dead>', '<noparent>')

# ----------------------------------------------------------------------------------------------- directed cases

def _c(uid, nin, nout, **kw):
  s = {'uid': uid, 'ph': False, 'nin': nin, 'nout': nout, 'k': 1, 'wires': [], 'mport': False, 'caller': None, 'items': [],
       'conns': [], 'consts': [], 'uu': [], 'rdu': [], 'wru': [], 'mcs': [], 'rin': False}
  s.update(kw)
  return s

def _b(name, kind, reads, writes, **kw):
  b = {'t': 'blk', 'name': name, 'kind': kind, 'reads': reads, 'writes': writes, 'op': '+', 'func': False}
  b.update(kw)
  return b

def _k(slot, spec): return {'t': 'kid', 'slot': slot, 'spec': spec}
def R(*toks): return [list(toks[:-1]), toks[-1]]

def plain_leaf(uid, nin=1, nout=1, kind='comb'):
  return _c(uid, nin, nout, items=[_b(f'p{o}', kind, [R('in0')], [R(f'out{o}')]) for o in range(nout)])

def directed():
  """[(name, spec, steps, flags)]"""
  D = []
  # 1. removed child carries update_once + method port + M constraint + constant + RD/WR/U constraints; new one is pure RTL
  rich = _c(9001, 1, 1, wires=['w0', 'w1', 'w2'], mport=True,
            items=[_b('b0', 'comb', [R('in0')], [R('w0')]), _b('b1', 'once', [R('w0'), R('w2')], [R('w1')]),
                   _b('b2', 'comb', [R('w1')], [R('out0')])],
            consts=[[R('w2'), 5]], uu=[['b0', 'b2']], rdu=[[R('w0'), False, 'b0']], wru=[[R('w1'), True, 'b2']],
            mcs=[[['m', R('ping')], ['u', 'b1'], False]])
  top = _c(9000, 1, 1, wires=['w0'], items=[_b('b0', 'comb', [R('in0')], [R('w0')]), _k('c0', rich)],
           conns=[[R('c0', 'in0'), R('w0')], [R('out0'), R('c0', 'out0')]])
  D.append(('level4-and-const-leftovers', top, [{'path': ['c0'], 'new': plain_leaf(9002, kind='ff'), 'mode': 'cls'}], {}))
  # 2. pure RTL -> pure RTL, everything crosses the boundary the supported way (parent block, func, const, connect, list)
  top = _c(9010, 2, 2, wires=['w0'],
           items=[_b('b0', 'comb', [R('in0')], [R('d0[0]', 'in0')], func=True), _k('d0[0]', plain_leaf(9011)),
                  _k('d0[1]', plain_leaf(9012, 2, 1)), _b('b1', 'comb', [R('d0[1]', 'out0'), R('d0[0]', 'out0')], [R('w0')]),
                  _b('b2', 'ff', [R('w0')], [R('out1')])],
           conns=[[R('d0[1]', 'in0'), R('d0[0]', 'out0')], [R('out0'), R('d0[1]', 'out0')]], consts=[[R('d0[1]', 'in1'), 77]])
  D.append(('supported-crossings', top, [{'path': ['d0[1]'], 'new': plain_leaf(9013, 2, 1, 'ff'), 'mode': 'obj'},
                                         {'path': ['d0[0]'], 'new': plain_leaf(9014), 'mode': 'cls'},
                                         {'path': ['d0[1]'], 'new': plain_leaf(9015, 2, 1), 'mode': 'cls'}], {}))
  # 3. explicit RD/WR constraints of the parent on ports of the replaced child
  top = _c(9020, 1, 2, items=[_k('c0', plain_leaf(9021)), _b('b0', 'comb', [R('c0', 'out0')], [R('out0')]),
                              _b('b1', 'comb', [R('in0')], [R('out1')])],
           conns=[[R('c0', 'in0'), R('in0')]], rdu=[[R('c0', 'out0'), True, 'b1']], wru=[[R('c0', 'in0'), False, 'b1']])
  D.append(('parent-value-constraint', top, [{'path': ['c0'], 'new': plain_leaf(9022), 'mode': 'cls'}], {'blame': 'parent_value_constraint'}))
  # 4. method port of the child: connected to a caller port of the parent, called there, M-constrained by the parent
  callee = _c(9031, 1, 1, mport=True, items=[_b('b0', 'once', [R('in0')], [R('out0')])],
              mcs=[[['m', R('ping')], ['u', 'b0'], False]])
  callee2 = copy.deepcopy(callee); callee2['uid'] = 9032
  top = _c(9030, 1, 1, caller=['c0'], items=[_k('c0', callee), _b('b0', 'once', [], [], calls_cp=True)],
           conns=[[R('c0', 'in0'), R('in0')], [R('out0'), R('c0', 'out0')]], mcs=[[['u', 'b0'], ['m', R('c0', 'ping')], False]])
  D.append(('parent-method-port', top, [{'path': ['c0'], 'new': callee2, 'mode': 'cls'}], {'blame': 'parent_M_constraint'}))
  # 5. a block two levels up reads a port of the replaced grandchild
  mid = _c(9041, 1, 1, items=[_k('c0', plain_leaf(9042))], conns=[[R('c0', 'in0'), R('in0')], [R('out0'), R('c0', 'out0')]])
  top = _c(9040, 1, 2, items=[_k('c0', mid), _b('b0', 'comb', [R('c0', 'c0', 'out0')], [R('out1')])],
           conns=[[R('c0', 'in0'), R('in0')], [R('out0'), R('c0', 'out0')]])
  D.append(('ancestor-block-ref', top, [{'path': ['c0', 'c0'], 'new': plain_leaf(9043), 'mode': 'obj'}], {}))
  # 6. parent-level loopback between two ports of the replaced child (outside NoLoopAt)
  lb = _c(9051, 2, 2, items=[_b('b0', 'ff', [R('in0')], [R('out1')]), _b('b1', 'comb', [R('in1')], [R('out0')])])
  lb2 = copy.deepcopy(lb); lb2['uid'] = 9052
  top = _c(9050, 1, 1, items=[_k('c0', lb)],
           conns=[[R('c0', 'in0'), R('in0')], [R('c0', 'out1'), R('c0', 'in1')], [R('out0'), R('c0', 'out0')]])
  D.append(('parent-loopback', top, [{'path': ['c0'], 'new': lb2, 'mode': 'cls'}], {'noloop': True, 'blame': 'loopback_connection'}))
  # 7. same path replaced three times, then a path inside the installed subtree, nested children with constants
  def nest(uid):
    return _c(uid, 1, 1, wires=['w0'], items=[_k('c0', plain_leaf(uid + 1)), _b('b0', 'comb', [R('c0', 'out0'), R('w0')], [R('out0')])],
              conns=[[R('c0', 'in0'), R('in0')]], consts=[[R('w0'), 9]])
  top = _c(9060, 1, 1, items=[_k('c0', nest(9061))], conns=[[R('c0', 'in0'), R('in0')], [R('out0'), R('c0', 'out0')]])
  D.append(('repeat-and-descend', top, [{'path': ['c0'], 'new': nest(9063), 'mode': 'cls'},
                                        {'path': ['c0'], 'new': nest(9065), 'mode': 'obj'},
                                        {'path': ['c0', 'c0'], 'new': plain_leaf(9067, kind='ff'), 'mode': 'cls'},
                                        {'path': ['c0'], 'new': plain_leaf(9068), 'mode': 'obj'}], {}))
  # 8. the primary use: placeholders (one in a list) replaced by real components, one after the other
  def ph(uid, nin, nout): return _c(uid, nin, nout, ph=True)
  top = _c(9070, 1, 2, items=[_k('d0[0]', ph(9071, 1, 1)), _k('d0[1]', ph(9072, 2, 1)),
                              _b('b0', 'comb', [R('d0[1]', 'out0')], [R('out1')])],
           conns=[[R('d0[0]', 'in0'), R('in0')], [R('d0[1]', 'in0'), R('d0[0]', 'out0')], [R('out0'), R('d0[1]', 'out0')]],
           consts=[[R('d0[1]', 'in1'), 3]])
  D.append(('placeholders', top, [{'path': ['d0[1]'], 'new': plain_leaf(9073, 2, 1), 'mode': 'cls'},
                                  {'path': ['d0[0]'], 'new': nest(9074), 'mode': 'obj'}], {}))
  # 9./10. parent update_once block CALLS the method port of list children; the child is replaced once (class) and
  #         a second time (instance); with the M(ping) < U(publishing block) constraint in the child, and without it
  def acc(uid, with_m):
    b = _b('b0', 'once', [], [R('out0')], pub=with_m)
    return _c(uid, 0, 1, mport=True, items=[b], mcs=[[['m', R('ping')], ['u', 'b0'], False]] if with_m else [])
  for n, with_m in ((9080, True), (9090, False)):
    top = _c(n, 1, 2, items=[_k('d0[0]', acc(n + 1, with_m)), _k('d0[1]', acc(n + 2, with_m)),
                             _b('b0', 'once', [], [], mcalls=[R('d0[0]', 'ping'), R('d0[1]', 'ping')])],
             conns=[[R('out0'), R('d0[0]', 'out0')], [R('out1'), R('d0[1]', 'out0')]])
    D.append(('parent-calls-method' + ('-M' if with_m else ''), top,
              [{'path': ['d0[1]'], 'new': acc(n + 3, with_m), 'mode': 'cls'},
               {'path': ['d0[1]'], 'new': acc(n + 4, with_m), 'mode': 'obj'},
               {'path': ['d0[0]'], 'new': acc(n + 5, with_m), 'mode': 'cls'}], {}))
  # 11. a parent update_ff block drives an input port of the replaced child (needs_double_buffer of the new port)
  top = _c(9100, 1, 1, items=[_b('b0', 'ff', [R('in0')], [R('c0', 'in0')]), _k('c0', plain_leaf(9101))],
           conns=[[R('out0'), R('c0', 'out0')]])
  D.append(('parent-ff-writes-child', top, [{'path': ['c0'], 'new': plain_leaf(9102), 'mode': 'cls'}], {'blame': 'needs_double_buffer'}))
  # 12. slices of the child's port referenced from the parent (a connection and a block read): outside the model
  top = _c(9110, 1, 2, wires=['w0'], items=[_k('c0', plain_leaf(9111)),
             _b('b0', 'comb', [], [], body=['s.out1 @= zext( s.c0.out0[4:8], 8 )']),
             _b('b1', 'comb', [R('w0')], [R('out0')])],
           conns=[[R('c0', 'in0'), R('in0')]], raw=['connect( s.w0[0:4], s.c0.out0[0:4] )'])
  D.append(('parent-slices', top, [{'path': ['c0'], 'new': plain_leaf(9112), 'mode': 'obj'}], {'nomodel': True, 'blame': 'slice_signal'}))
  # 13. a constant tied by the parent to an input port of the replaced child (the old Const object)
  top = _c(9120, 1, 1, items=[_k('c0', plain_leaf(9121, 2, 1))], conns=[[R('c0', 'in0'), R('in0')], [R('out0'), R('c0', 'out0')]],
           consts=[[R('c0', 'in1'), 5]])
  D.append(('parent-const', top, [{'path': ['c0'], 'new': plain_leaf(9122, 2, 1), 'mode': 'cls'}], {}))
  # 14. the parent calls a non-blocking interface of the replaced child: outside the model
  def nbq(uid):
    return _c(uid, 0, 1, nbifc=True, items=[_b('b0', 'once', [], [R('out0')], pub=True)],
              raw_end=['s.add_constraints( M(s.enq) < U(b0) )'])
  top = _c(9130, 1, 1, items=[_k('c0', nbq(9131)),
             _b('b0', 'once', [], [], body=['if s.c0.enq.rdy(): s.c0.enq( int(s.in0) )'])],
           conns=[[R('out0'), R('c0', 'out0')]])
  D.append(('parent-calls-interface', top, [{'path': ['c0'], 'new': nbq(9132), 'mode': 'cls'}], {'nomodel': True, 'blame': 'interface'}))
  # 15. method nets INSIDE the replacement: a child without any method port (pure RTL / placeholder) is replaced by one
  #     that calls a helper child's method through an internally connected CallerPort; then the reverse; then both-with
  def helper(uid): return _c(uid, 0, 0, mport=True)
  def cl(uid):
    return _c(uid, 1, 1, caller=['c0'], items=[_k('c0', helper(uid + 1)), _b('b0', 'once', [R('in0')], [R('out0')], calls_cp=True)])
  for n, first in ((9140, plain_leaf(9141)), (9150, _c(9151, 1, 1, ph=True))):
    top = _c(n, 1, 1, items=[_k('c0', first)], conns=[[R('c0', 'in0'), R('in0')], [R('out0'), R('c0', 'out0')]])
    D.append(('internal-method-net' + ('-ph' if first.get('ph') else ''), top,
              [{'path': ['c0'], 'new': cl(n + 2), 'mode': 'cls'}, {'path': ['c0'], 'new': cl(n + 4), 'mode': 'obj'},
               {'path': ['c0'], 'new': plain_leaf(n + 6), 'mode': 'cls'}, {'path': ['c0'], 'new': cl(n + 7), 'mode': 'obj'}], {}))
  # 16./17. set_param on the construct argument of replaced children: list elements at depth 1 and 2, exact and `*` form
  #         (16 is the fixed regression F26: _add_component of a list element with parameters raised NameError ParamTreeNode)
  def kleaf(uid, nin=1, nout=1, kind='comb'): return dict(plain_leaf(uid, nin, nout, kind), kconst=True)
  top = _c(9160, 1, 2, items=[_k('d0[0]', kleaf(9161)), _k('d0[1]', kleaf(9162))],
           conns=[[R('d0[0]', 'in0'), R('in0')], [R('d0[1]', 'in0'), R('in0')], [R('out0'), R('d0[0]', 'out0')], [R('out1'), R('d0[1]', 'out0')]])
  D.append(('fixed-regression-F26-list-element-set-param', top,
            [{'path': ['d0[0]'], 'new': kleaf(9163, kind='ff'), 'mode': 'cls'}, {'path': ['d0[0]'], 'new': kleaf(9164), 'mode': 'obj'},
             {'path': ['d0[1]'], 'new': kleaf(9165), 'mode': 'obj'}], {'params': [['top.d0[0].construct', 7]]}))
  mid = _c(9171, 1, 1, kconst=True, items=[_k('d0[0]', kleaf(9172)), _k('d0[1]', kleaf(9173))],
           conns=[[R('d0[0]', 'in0'), R('in0')], [R('d0[1]', 'in0'), R('d0[0]', 'out0')], [R('out0'), R('d0[1]', 'out0')]])
  top = _c(9170, 1, 1, items=[_k('c0', mid)], conns=[[R('c0', 'in0'), R('in0')], [R('out0'), R('c0', 'out0')]])
  D.append(('set-param-depth2-regex', top,
            [{'path': ['c0', 'd0[1]'], 'new': kleaf(9174), 'mode': 'cls'}, {'path': ['c0', 'd0[0]'], 'new': kleaf(9175, kind='ff'), 'mode': 'obj'},
             {'path': ['c0'], 'new': dict(copy.deepcopy(mid), uid=9176), 'mode': 'cls'}],
            {'params': [['top.c0.d0\\[*.construct', 12], ['top.c0.construct', 15]]}))
  # 18. elements of nested lists at depth 2 and 3 (s.c0.e0[0][0], s.c0.e0[1][0].d0[1]): level / parent / host of the new subtree
  def lst(uid, a, b, slots):
    return _c(uid, 1, 1, items=[_k(slots[0], a), _k(slots[1], b)],
              conns=[[R(slots[0], 'in0'), R('in0')], [R(slots[1], 'in0'), R(slots[0], 'out0')], [R('out0'), R(slots[1], 'out0')]])
  inner = lst(9181, plain_leaf(9182), plain_leaf(9183), ['d0[0]', 'd0[1]'])
  mid = lst(9184, plain_leaf(9185), inner, ['e0[0][0]', 'e0[1][0]'])
  top = _c(9180, 1, 1, items=[_k('c0', mid)], conns=[[R('c0', 'in0'), R('in0')], [R('out0'), R('c0', 'out0')]])
  D.append(('nested-list-elements-deep', top,
            [{'path': ['c0', 'e0[1][0]', 'd0[1]'], 'new': plain_leaf(9186, kind='ff'), 'mode': 'cls'},
             {'path': ['c0', 'e0[0][0]'], 'new': lst(9187, plain_leaf(9188), plain_leaf(9189), ['d0[0]', 'd0[1]']), 'mode': 'obj'},
             {'path': ['c0', 'e0[0][0]', 'd0[0]'], 'new': plain_leaf(9190), 'mode': 'obj'},
             {'path': ['c0', 'e0[1][0]'], 'new': plain_leaf(9191), 'mode': 'cls'}], {}))
  # 19. an ordinary 1-bit input of the replaced child (sync clear of a register) tied by the parent to its own reset / clk,
  #     list elements at depth 2; the simulation pulses reset mid-run
  def acc(uid): return _c(uid, 1, 1, rin=True, wires=['w0'], items=[_b('b0', 'ff', [R('in0'), R('w0')], [R('w0')], rin=True),
                                                                     _b('b1', 'comb', [R('w0')], [R('out0')])])
  mid = _c(9201, 1, 1, items=[_k('d0[0]', acc(9202)), _k('d0[1]', acc(9203))],
           conns=[[R('d0[0]', 'in0'), R('in0')], [R('d0[1]', 'in0'), R('d0[0]', 'out0')], [R('out0'), R('d0[1]', 'out0')],
                  [R('d0[0]', 'rin'), R('reset')], [R('clk'), R('d0[1]', 'rin')]])
  top = _c(9200, 1, 2, items=[_k('c0', mid), _k('c1', acc(9204))],
           conns=[[R('c0', 'in0'), R('in0')], [R('out0'), R('c0', 'out0')], [R('c1', 'in0'), R('in0')], [R('out1'), R('c1', 'out0')],
                  [R('reset'), R('c1', 'rin')]])
  D.append(('reset-tied-port', top, [{'path': ['c0', 'd0[0]'], 'new': acc(9205), 'mode': 'cls'}, {'path': ['c1'], 'new': acc(9206), 'mode': 'obj'},
                                     {'path': ['c0', 'd0[1]'], 'new': acc(9207), 'mode': 'obj'}, {'path': ['c0', 'd0[0]'], 'new': acc(9208), 'mode': 'obj'}], {}))
  # 20. a structural wrapper (no update block of its own) that orders its children's blocks with U(x) < U(y), in a list at
  #     depth 2, replaced four times in a row: other order, no constraint, same-named constraint again, plain leaf
  def pair(uid, order):
    return _c(uid, 1, 2, items=[_k('c0', plain_leaf(uid + 1)), _k('c1', plain_leaf(uid + 2))],
              conns=[[R('c0', 'in0'), R('in0')], [R('c1', 'in0'), R('in0')], [R('out0'), R('c0', 'out0')], [R('out1'), R('c1', 'out0')]],
              uux=[] if order is None else [[R(order[0], 'p0'), R(order[1], 'p0')]])
  mid = _c(9211, 1, 1, items=[_k('d0[0]', pair(9212, ('c0', 'c1'))), _k('d0[1]', pair(9215, ('c1', 'c0'))),
                              _b('b0', 'comb', [R('d0[0]', 'out0'), R('d0[0]', 'out1'), R('d0[1]', 'out1')], [R('out0')])],
           conns=[[R('d0[0]', 'in0'), R('in0')], [R('d0[1]', 'in0'), R('in0')]])
  top = _c(9210, 1, 1, items=[_k('c0', mid)], conns=[[R('c0', 'in0'), R('in0')], [R('out0'), R('c0', 'out0')]])
  D.append(('structural-wrapper-UU', top,
            [{'path': ['c0', 'd0[0]'], 'new': pair(9220, ('c1', 'c0')), 'mode': 'cls'}, {'path': ['c0', 'd0[0]'], 'new': pair(9223, None), 'mode': 'obj'},
             {'path': ['c0', 'd0[0]'], 'new': pair(9226, ('c0', 'c1')), 'mode': 'cls'}, {'path': ['c0', 'd0[0]'], 'new': plain_leaf(9229, 1, 2), 'mode': 'obj'}], {}))
  # 21. known finding: a SURVIVING component orders a block of the replaced child (U( s.c0.get_update_block("p0") ) < U( s.c1... ))
  top = _c(9230, 1, 2, items=[_k('c0', plain_leaf(9231)), _k('c1', plain_leaf(9232))],
           conns=[[R('c0', 'in0'), R('in0')], [R('c1', 'in0'), R('in0')], [R('out0'), R('c0', 'out0')], [R('out1'), R('c1', 'out0')]],
           uux=[[R('c0', 'p0'), R('c1', 'p0')]])
  D.append(('parent_UU_constraint', top, [{'path': ['c0'], 'new': plain_leaf(9233), 'mode': 'cls'}], {}))
  # 22. children configured by set_param on the OBJECT before the parent attaches it (attribute at depth 2 and list element),
  #     the parameter changes the structure (k % 3 extra wires / constants / nets); replaced by class once and repeatedly
  def cfg(uid, k, oparam, **kw): return dict(plain_leaf(uid, **kw), k=k, oparam=oparam, kconst=True)
  mid = _c(9241, 1, 1, items=[_k('c0', cfg(9242, 1, 5))], conns=[[R('c0', 'in0'), R('in0')], [R('out0'), R('c0', 'out0')]])
  top = _c(9240, 1, 3, items=[_k('c0', mid), _k('d0[0]', cfg(9243, 0, 7)), _k('d0[1]', cfg(9244, 2, 4))],
           conns=[[R('c0', 'in0'), R('in0')], [R('out0'), R('c0', 'out0')], [R('d0[0]', 'in0'), R('in0')], [R('out1'), R('d0[0]', 'out0')],
                  [R('d0[1]', 'in0'), R('in0')], [R('out2'), R('d0[1]', 'out0')]])
  keep = lambda uid, k, **kw: dict(plain_leaf(uid, **kw), k=k, kconst=True)
  D.append(('object-level-set-param', top,
            [{'path': ['c0', 'c0'], 'new': keep(9245, 5, kind='ff'), 'mode': 'cls'}, {'path': ['d0[1]'], 'new': keep(9246, 4), 'mode': 'cls'},
             {'path': ['c0', 'c0'], 'new': keep(9247, 5), 'mode': 'cls'}, {'path': ['d0[0]'], 'new': cfg(9248, 1, 8), 'mode': 'obj'},
             {'path': ['d0[0]'], 'new': keep(9249, 8), 'mode': 'cls'}], {}))
  return D

# ----------------------------------------------------------------------------------------------- one case

def features(spec):
  """what the subtree carries (for the non-triviality rule and the histograms)"""
  f = set()
  def walk(s, top):
    for it in s['items']:
      if it['t'] == 'blk':
        f.add(it['kind'])
        if it['func']: f.add('func')
      else:
        f.add('nested')
        walk(it['spec'], False)
    if s['consts']: f.add('const')
    if s['mcs']: f.add('M')
    if s['uu']: f.add('UU')
    if s.get('uux'): f.add('UU-on-descendants')
    if s.get('rdux') or s.get('wrux'): f.add('RD/WR-U-on-descendants')
    if s.get('mcx'): f.add('M-on-descendants')
    if not top and not s.get('ph') and s['items'] and all(it['t'] == 'kid' for it in s['items']): f.add('structural-inner')
    if top and not s.get('ph') and s['items'] and all(it['t'] == 'kid' for it in s['items']): f.add('structural')
    if s['rdu']: f.add('RDU')
    if s['wru']: f.add('WRU')
    if s['mport']: f.add('mport')
    if s.get('oparam') is not None: f.add('object-level set_param' + ('' if top else ' (nested)'))
    if s.get('caller'): f.add('method-net')
  walk(spec, True)
  return f

def crossing(parent, slot):
  f = set()
  for it in parent['items']:
    if it['t'] == 'blk':
      if any(r[0][:1] == [slot] for r in it['reads']): f.add('parent-blk-read')
      if any(r[0][:1] == [slot] for r in it['writes']): f.add('parent-blk-write')
      if it['func'] and any(r[0][:1] == [slot] for r in it['reads'] + it['writes']): f.add('parent-func')
      if any(r[0][:1] == [slot] for r in it.get('mcalls', [])): f.add('parent-blk-call')
  if parent.get('caller') == [slot]: f.add('parent-method-connect')
  if any(r[0][:1] == [slot] for r, _ in parent['consts']): f.add('parent-const')
  if any(a[0][:1] == [slot] or b[0][:1] == [slot] for a, b in parent['conns']): f.add('parent-connect')
  return f

def leftover_name(where, what, note):
  w = where.split('.', 1)[1]
  if 'Ifc' in what.split('<')[-1]: return 'interface'
  if what.startswith('orphan-const'): return 'parent_const'
  if what.startswith('unregistered'): return 'slice_signal' if '[' in what and ':' in what else 'unregistered'
  if w == 'all_update_once' or (where.startswith('local') and w == 'update_once'): return 'update_once'
  if w == 'all_M_constraints': return None        # classified per tuple below
  if w == 'all_U_U_constraints': return None      # classified per pair below
  if w == 'U_U_constraints': return 'parent_UU_constraint'
  if w == 'M_constraints': return 'parent_M_constraint'
  if w in ('all_RD_U_constraints', 'all_WR_U_constraints'): return None   # classified per key below
  if w in ('RD_U_constraints', 'WR_U_constraints'): return 'parent_value_constraint'
  if w == 'all_adjacency':
    return 'adjacency_const' if what.startswith('dead-const') or 'value' == note and what.startswith('deleted') else 'adjacency'
  if w in ('all_upblk_reads', 'all_upblk_writes', 'all_upblk_calls', 'upblk_reads', 'upblk_writes', 'upblk_calls',
           'func_reads', 'func_writes', 'func_calls'): return 'ancestor_block_ref'
  if w == 'connect_order': return 'parent_connect_order'
  return where

FIELD_NAME = {'once': 'update_once'}
LOST = {'loopback_connection', 'slice_signal', 'needs_double_buffer'}
PRIORITY = ['update_once', 'M_constraints', 'adjacency_const', 'RD_WR_U_empty_key']

def diff_name(field, extra, missing):
  """signature name of a by-name difference between the replaced and the from-scratch design"""
  ents = extra + missing
  if field in FIELD_NAME: return FIELD_NAME[field]
  if field == 'dbuf': return 'needs_double_buffer'
  if field == 'uu' and extra and all(e.count('<dead>') == 1 for e in extra): return 'parent_UU_constraint'
  if field == 'sig' and missing and not extra and all(':' in e for e in missing): return 'slice_signal'
  if field == 'mc':
    return 'M_constraints' if all('<dead>' in e for e in extra) and not missing else 'parent_M_constraint'
  if field in ('read', 'write', 'call'):
    return 'ancestor_block_ref' if extra and all('<deleted>' in e and '<dead>' not in e for e in extra) else 'meta_' + field
  if field in ('rdu', 'wru'):
    if extra and all('<dead>' in e for e in extra) and not missing: return field[:2].upper() + '_U_constraints'
    return 'parent_value_constraint' if any('<deleted>' in e for e in extra) else 'meta_' + field
  if field == 'edge':
    if extra and all('(const <noparent>' in e for e in extra) and not missing: return 'adjacency_const'
    return 'adjacency'
  return 'meta_' + field

def order(kv): return (PRIORITY.index(kv[0]) if kv[0] in PRIORITY else len(PRIORITY), kv[0])

def stale(e): return any(m in e for m in MARKERS)

def m_constraint_leftovers(top):
  import types
  from pymtl3.dsl.NamedObject import NamedObject
  names = set()
  live_funcs = set(top._dsl.all_upblk_hostobj)
  for x, y, _ in top._dsl.all_M_constraints:
    dead_f = any(isinstance(z, types.FunctionType) and z not in live_funcs for z in (x, y))
    dead_o = any(isinstance(z, NamedObject) and repr(z).startswith('<deleted>') for z in (x, y))
    if dead_f: names.add('M_constraints')
    elif dead_o: names.add('parent_M_constraint')
  return names

def value_constraint_leftovers(top):
  names = set()
  live_funcs = set(top._dsl.all_upblk_hostobj)
  for tag, d in (('RD', top._dsl.all_RD_U_constraints), ('WR', top._dsl.all_WR_U_constraints)):
    for k, cs in d.items():
      dead = [f for _, f in cs if f not in live_funcs]
      if dead: names.add(tag + '_U_constraints')
      elif repr(k).startswith('<deleted>'):
        names.add('parent_value_constraint' if cs else 'RD_WR_U_empty_key')
  return names

def uu_constraint_leftovers(top):
  """a pair with BOTH blocks gone belonged to a removed component (not uncollected); a pair with one live block was
  declared by a surviving component on a block of the removed one (known family: parent_*_constraint)"""
  live = set(top._dsl.all_upblk_hostobj)
  names = set()
  for x, y in top._dsl.all_U_U_constraints:
    dead = (x not in live) + (y not in live)
    if dead == 2: names.add('top.all_U_U_constraints')
    elif dead == 1: names.add('parent_UU_constraint')
  return names

def special_leftovers(top):
  return {n: [['top.all_U_U_constraints', '', '']] for n in uu_constraint_leftovers(top)} | \
         {n: [['top.all_M_constraints', '', '']] for n in m_constraint_leftovers(top)} | \
         {n: [['top.all_RD_U/WR_U_constraints', '', '']] for n in value_constraint_leftovers(top)}

def new_obj(cls, spec):
  """the replacement instance, configured like a from-scratch parent would configure it"""
  o = cls(k=spec['k'])
  if spec.get('oparam') is not None: o.set_param('top.construct', k=spec['oparam'])
  return o

def sim_trace(t, spec, inputs):
  from pymtl3.dsl import Signal
  names = sorted(n for n in (repr(x) for x in t.get_all_object_filter(lambda x: isinstance(x, Signal))) if ':' not in n)
  t.apply(DefaultPassGroup())
  t.sim_reset()
  tr = []
  for c, row in enumerate(inputs):
    t.reset @= 1 if c == 2 else 0          # reset is pulsed in mid-run: ports tied to it by a parent must follow
    for j in range(spec['nin']): getattr(t, f'in{j}').__imatmul__(Bits8(row[j]))
    t.sim_tick()
    tr.append({n: int(U.get_obj(t, n.split('.')[1:])) for n in names})
  return tr

def run_case(ck, case, verbose=False, report=True):
  """returns the list of (kind, signature, detail) found by the direct oracle; model comparison -> ck.disagreement"""
  spec0, steps, flags = case['spec'], case['steps'], case.get('flags', {})
  nomodel = flags.get('noloop') or flags.get('nomodel')
  sigkey = lambda n: 'lost' if n in LOST else 'leftover'
  found = []
  def viol(kind, sig, detail):
    found.append((kind, sig, detail))
    if verbose: print('  VIOLATION', kind, sig, json.dumps(detail, default=str)[:600])
    if report: ck.violation(kind, sig, case, detail)
  hist = lambda n, b: ck.hist(n, b) if report else None

  # ---- model
  params = [tuple(x) for x in case.get('params', [])]
  def make(cls, k):
    """instantiate a top, hand it the case's set_param calls, elaborate"""
    x = cls(k)
    for pat, v in params: x.set_param(pat, k=v)
    x.elaborate()
    return x
  H0 = U.hier(spec0, params=params)
  reps = [[st['path'], U.hier(st['new'], params=params, base=st['path'])] for st in steps]
  lines = [leanio.line('meta', 'elab', H0), leanio.line('meta', 'delete', H0, steps[0]['path'])]
  for i in range(len(steps)):
    lines.append(leanio.line('meta', 'replace', H0, reps[:i + 1]))
    lines.append(leanio.line('meta', 'build', H0, reps[:i + 1]))
  out = ck.drv('meta').batch(lines)
  def dump(rep):
    if not rep.startswith('ok '): return None
    return [U.parse_dump(x) for x in leanio.parse_sexp(rep[3:])]
  m_elab = dump(out[0])[0]
  m_del = dump(out[1])
  m_rep = [dump(out[2 + 2 * i]) for i in range(len(steps))]
  m_bld = [dump(out[3 + 2 * i])[0] for i in range(len(steps))]

  def compare(what, model, impl, skip=()):
    for f in U.FIELDS:
      if f in skip or f in U.MODEL_SKIP: continue
      a, b = model[f], [e for e in impl[f] if not stale(e)]
      if a != b:
        d = {'field': f, 'model_only': sorted(set(a) - set(b))[:8], 'impl_only': sorted(set(b) - set(a))[:8]}
        if verbose: print('  DISAGREEMENT', what, d)
        if report: ck.disagreement(f'{what}:{f}', case, d['model_only'], d['impl_only'])
        return False
    return True

  # ---- the real thing
  top_cls = U.load(ck.workdir, spec0, 'o')
  t = make(top_cls, spec0['k'])
  obs0 = U.observe(t)
  if U.scan(t): raise InfraError(f'fresh design is not clean: {U.scan(t)[:3]}')
  if not nomodel: compare('elaborate', m_elab, obs0)

  # _delete_component alone, on a second instance
  td = make(top_cls, spec0['k'])
  p0 = steps[0]['path']
  try:
    sv = td._delete_component(U.get_obj(td, p0))
    from pymtl3.dsl import Signal
    par = 's' + ''.join('.' + x for x in p0[:-1])
    saved = []
    for other, name in sv[0]:
      sig = 's' + name[3:]
      saved.append(f'(edge {repr(other) if isinstance(other, Signal) or hasattr(other, "_dsl") else f"(const {par} {sig} {int(other)})"} {sig})')
    for tag, lst in (('read', sv[1]), ('write', sv[2]), ('call', sv[3])):
      saved += [f'({tag} {repr(td._dsl.all_upblk_hostobj[b])} {b.__name__} {n})' for b, n in lst]
    obs_d = U.observe(td)
    pfx = 's' + ''.join('.' + x for x in p0)
    under = [e for f in U.FIELDS for e in obs_d[f] if not stale(e) and (pfx + '.' in e or pfx + ' ' in e or pfx + ')' in e)]
    dnames = {}
    for where, what, note in U.scan(td):
      n = leftover_name(where, what, note)
      if n: dnames.setdefault(n, []).append([where, what, note])
    for n, l in special_leftovers(td).items(): dnames.setdefault(n, []).extend(l)
    dnames.pop('parent_const', None)     # between delete and add the parent's constant is merely waiting to be re-connected
    if under and not dnames: viol('leftover', {'leftover': 'name_under_path_after_delete'}, {'entries': under[:8]})
    for n, l in sorted(dnames.items(), key=order):
      viol('leftover', {sigkey(n): n}, {'after': '_delete_component', 'path': p0, 'reachable': l[:6]})
    if m_del is not None and not nomodel:
      compare('delete-left', m_del[0], obs_d)
      skip = ('read', 'write', 'call') if 'ancestor_block_ref' in dnames else ()
      msaved = sorted(e for f in ('edge', 'read', 'write', 'call') if f not in skip for e in m_del[1][f])
      saved = [e for e in saved if e[1:e.index(' ')] not in skip]
      if msaved != sorted(set(saved)):
        d = {'model_only': sorted(set(msaved) - set(saved))[:8], 'impl_only': sorted(set(saved) - set(msaved))[:8]}
        if verbose: print('  DISAGREEMENT delete-saved', d)
        if report: ck.disagreement('delete-saved', case, d['model_only'], d['impl_only'])
  except InfraError: raise
  except Exception as e:
    viol('raises', {'raises': type(e).__name__, 'in': '_delete_component'}, {'msg': str(e)[:300]})

  cur = spec0
  names_seen = set()
  ok = True
  for i, st in enumerate(steps):
    path = st['path']
    old = U.sub(cur, path)
    parent = U.sub(cur, path[:-1])
    new_cls = U.load(ck.workdir, st['new'], 'n')
    obj = U.get_obj(t, path)
    try:
      if st['mode'] == 'cls': t.replace_component(obj, new_cls)
      else: t.replace_component_with_obj(obj, new_obj(new_cls, st['new']))
    except Exception as e:
      try:
        left = sorted({n: 1 for n in [leftover_name(*x) for x in U.scan(t)] if n} | special_leftovers(t), key=lambda n: order((n, 0)))
      except Exception:
        left = []
      blame = [n for n in left if n in ('ancestor_block_ref', 'parent_value_constraint', 'parent_M_constraint')]
      sig = {'leftover': blame[0], 'effect': 'replace raises', 'raises': type(e).__name__} if blame else {'raises': type(e).__name__}
      viol('raises', sig, {'step': i, 'path': path, 'msg': str(e)[:300], 'reachable_after_failure': left})
      ok = False
      break
    cur = U.subst(cur, path, st['new'])
    obs_r = U.observe(t)
    ts = make(U.load(ck.workdir, cur, 's'), cur['k'])
    obs_s = U.observe(ts)
    if U.scan(ts): raise InfraError(f'fresh design is not clean: {U.scan(ts)[:3]}')
    # direct oracle 1: by-name metadata equal to the from-scratch design
    bad_fields = set()
    names = set()
    for f in U.FIELDS:
      if obs_r[f] != obs_s[f]:
        extra = sorted(set(obs_r[f]) - set(obs_s[f])); missing = sorted(set(obs_s[f]) - set(obs_r[f]))
        bad_fields.add(f)
        n = diff_name(f, extra, missing)
        if flags.get('noloop') and f in ('edge', 'net'): n = 'loopback_connection'
        names.add((n, f, tuple(extra[:6]), tuple(missing[:6])))
    # direct oracle 2: nothing of a removed component reachable
    lo = U.scan(t)
    lnames = {}
    for where, what, note in lo:
      n = leftover_name(where, what, note)
      if n: lnames.setdefault(n, []).append([where, what, note])
    for n, l in special_leftovers(t).items(): lnames.setdefault(n, []).extend(l)
    by = {}
    for n, f, extra, missing in names: by.setdefault(n, {}).setdefault('meta_diff', []).append({'field': f, 'extra': extra, 'missing': missing})
    for n, l in lnames.items(): by.setdefault(n, {})['reachable'] = l[:6]
    for n, detail in sorted(by.items(), key=order):
      names_seen.add(n)
      detail['step'] = i; detail['path'] = path
      viol(sigkey(n), {sigkey(n): n}, detail)
    # model second
    if not nomodel:
      compare(f'build[{i}]', m_bld[i], obs_s)
      if m_rep[i] is None:
        if report: ck.disagreement('replace-unresolved', case, 'err unresolved', 'replaced')
      else:
        if m_rep[i][0] != m_bld[i]:
          if report: ck.disagreement('model-replace-vs-build', case, 'differs', '')
        compare(f'replace[{i}]', m_rep[i][0], obs_r, skip=bad_fields)
    for pat, _ in params:
      if U.param_matches(pat, tuple(path)): hist('set_param_on_replaced', ('regex ' if '*' in pat else 'exact ') + ('list' if '[' in path[-1] else 'attr') + f' depth{len(path)}')
    hist('mode', st['mode']); hist('replaced_depth', len(path))
    hist('list_position', '[' in path[-1])
    if old.get('ph'): hist('removed_subtree_has', 'placeholder')
    for x in sorted(features(old)): hist('removed_subtree_has', x)
    for x in sorted(crossing(parent, path[-1])): hist('crossing', x)

  # ---- simulation of the final designs
  if ok and U.placeholders(cur):
    hist('simulated', 'no: placeholder left')
  elif ok:
    hist('simulated', 'yes')
    tr_s = None
    try:
      tr_s = sim_trace(ts, cur, case['inputs'])
    except Exception as e:
      if report: ck.extra_cov['scratch_sim_failed'] = ck.extra_cov.get('scratch_sim_failed', 0) + 1
      if verbose: print('  scratch design does not simulate:', type(e).__name__, str(e)[:200])
    if tr_s is not None:
      def classify(kind, tr_or_exc):
        """attribute a simulation difference to a leftover only if the directed case says so, or if purging
        that leftover from an identically rebuilt replaced design makes the difference disappear"""
        n = flags.get('blame')
        if n and n in names_seen and case['kind'].startswith('directed:'): return {sigkey(n): n, 'effect': 'simulation'}
        if 'update_once' in names_seen:
          t2 = make(top_cls, spec0['k'])
          for st in steps:
            o2 = U.get_obj(t2, st['path']); c2 = U.load(ck.workdir, st['new'], 'm')
            if st['mode'] == 'cls': t2.replace_component(o2, c2)
            else: t2.replace_component_with_obj(o2, new_obj(c2, st['new']))
          live = set(t2._dsl.all_upblks)
          t2._dsl.all_update_once -= {b for b in t2._dsl.all_update_once if b not in live}
          try:
            if sim_trace(t2, cur, case['inputs']) == tr_s: return {'leftover': 'update_once', 'effect': 'simulation'}
          except Exception:
            pass
        return None
      try:
        tr_r = sim_trace(t, cur, case['inputs'])
        if tr_r != tr_s:
          cyc = next(c for c in range(len(tr_s)) if tr_r[c] != tr_s[c])
          d = {k: (tr_r[cyc].get(k), tr_s[cyc].get(k)) for k in sorted(set(tr_r[cyc]) | set(tr_s[cyc])) if tr_r[cyc].get(k) != tr_s[cyc].get(k)}
          viol('trace', classify('trace', tr_r) or {'trace': 'differs'}, {'cycle': cyc, 'replaced_vs_scratch': dict(list(d.items())[:8])})
      except Exception as e:
        viol('raises', dict(classify('raises', e) or {'in': 'simulation'}, raises=type(e).__name__), {'msg': str(e)[:300]})
      if report: ck.extra_cov['simulated'] = ck.extra_cov.get('simulated', 0) + 1
  return found

# ----------------------------------------------------------------------------------------------- generation of cases

def pinned(tree, p):
  """a component that survives the replacement of `p` names blocks / signals / methods under `p` in an explicit U-U, RD/WR-U or M constraint (it would keep
  the removed blocks, like the known findings parent_value_constraint / parent_M_constraint): not a replacement target"""
  for n in range(len(p)):
    anc = U.sub(tree, p[:n])
    refs = list(anc.get('uux', [])) + [[r, b] for key in ('rdux', 'wrux') for r, _, b in anc.get(key, [])] + \
           [[x[1], y[1]] for x, y, _ in anc.get('mcx', [])]
    for a, b in refs:
      for r in (a, b):
        q = tuple(p[:n]) + tuple(r[0])
        if q[:len(p)] == tuple(p) or tuple(p)[:len(q)] == q: return True
  return False

def random_case(rng, g, idx):
  spec = g.spec(rng.randint(1, 3), rng.randint(1, 2), rng.choice([1, 2, 2, 3]))
  while not [p for p in U.paths(spec) if not pinned(spec, p)]:
    spec = g.spec(rng.randint(1, 3), rng.randint(1, 2), rng.choice([1, 2, 2, 3]))
  cur = spec
  steps = []
  for _ in range(rng.choice([1, 1, 2, 2, 3, 4])):
    ps = [p for p in U.paths(cur) if not pinned(cur, p)]
    if not ps: break
    phs = [p for p in U.placeholders(cur) if p in ps]
    again = steps and tuple(steps[-1]['path']) in ps
    deep = [p for p in ps if len(p) >= 2 and '[' in p[-1]]       # list elements whose parent is not the top
    if again and steps[-1]['new'].get('uux') and rng.random() < 0.6: path = steps[-1]['path']   # same slot again
    elif deep and rng.random() < 0.3: path = list(rng.choice(deep))
    elif phs and rng.random() < 0.6: path = list(rng.choice(phs))
    elif again and rng.random() < 0.25: path = steps[-1]['path']
    else: path = list(rng.choice(ps))
    old = U.sub(cur, path)
    mode = rng.choice(['cls', 'obj'])
    parent = U.sub(cur, path[:-1])
    called = any(r[0] == [path[-1]] for it in parent['items'] if it['t'] == 'blk' for r in it.get('mcalls', [])) or \
             parent.get('caller') == [path[-1]]
    # class-based replacement re-instantiates with the construct arguments saved on the old child, which include what the
    # old OBJECT was configured with (set_param on the object before it was attached)
    kept = old['oparam'] if old.get('oparam') is not None else old['k']
    new = g.spec(old['nin'], old['nout'], rng.choice([0, 0, 1, 2]) if len(path) < 3 else 0,
                 k=kept if mode == 'cls' else None, mport=True if called else None, rin=bool(old.get('rin')))
    if old.get('oparam') is not None: new['kconst'] = True
    if mode == 'obj' and rng.random() < 0.3: new['oparam'] = rng.randint(20, 29); new['kconst'] = True    # configured replacement object
    steps.append({'path': list(path), 'new': new, 'mode': mode})
    cur = U.subst(cur, path, new)
  inputs = [[rng.randint(0, 255) for _ in range(spec['nin'])] for _ in range(5)]
  return {'kind': 'random', 'idx': idx, 'spec': spec, 'steps': steps, 'inputs': inputs,
          'params': gen_params(rng, spec, steps) if rng.random() < 0.5 else []}

def gen_params(rng, spec, steps):
  """set_param calls on the construct argument `k` of replaced children (and of a few others): exact names and the
  `*` (regular expression, re.match on every field name of the parent) form; every addressed component publishes k as a constant (s.kc //= k). At most
  one call reaches any component of any stage, so the value it gets does not depend on dict order."""
  import re
  trees = [spec]
  for st in steps: trees.append(U.subst(trees[-1], st['path'], st['new']))
  allp = sorted({p for t in trees for p in U.paths(t)})
  cands = [tuple(st['path']) for st in steps] + [rng.choice(allp) for _ in range(2)]
  rng.shuffle(cands)
  params = []
  for path in cands[:rng.randint(1, 3)]:
    tok = path[-1]
    r = rng.random()
    if r < 0.55: last = tok
    # re.match is a prefix match and applies to EVERY field of the parent (signals, method ports too): the patterns below
    # can only match component names (c<digit>…, d<digit>[…)
    elif '[' in tok: last = tok[:2] + '\\[*' if r < 0.8 else 'd[0-9]x*'    # elements of this list / of every list
    else: last = 'c[0-9]x*'                                               # every attribute child c0..c9
    pat = '.'.join(['top'] + list(path[:-1]) + [last, 'construct'])
    trial = params + [[pat, rng.randint(10, 19)]]
    # (a `*` call whose pattern matches a proper prefix of an earlier, deeper call wipes the deeper one in
    # ParamTreeNode.add_params — a set_param defect that has nothing to do with replacement: never generated)
    def shadows(p, q):
      a, b = p.split('.')[1:-1], q.split('.')[1:-1]
      return len(a) < len(b) and U.param_matches(p, tuple(b[:len(a)]))
    if all(sum(U.param_matches(p, q) for p, _ in trial) <= 1 for q in allp) and \
       not any(shadows(p, q) or shadows(q, p) for p, _ in trial for q, _ in trial if p != q): params = trial
  for t in trees:
    for q in U.paths(t):
      if any(U.param_matches(p, q) for p, _ in params):
        c = U.sub(t, q)
        if not c.get('ph'): c['kconst'] = True
  return params

def nontrivial(case):
  cur = case['spec']
  for st in case['steps']:
    old = U.sub(cur, st['path']); parent = U.sub(cur, st['path'][:-1])
    if (features(old) & {'once', 'M', 'const', 'RDU', 'WRU', 'UU', 'nested'}) or \
       (crossing(parent, st['path'][-1]) & {'parent-blk-read', 'parent-blk-write', 'parent-blk-call', 'parent-const'}):
      return True
    cur = U.subst(cur, st['path'], st['new'])
  return False

def summary(case):
  return {'kind': case['kind'], 'h': h12(case), 'size': U.size(case['spec']), 'depth': U.depth(case['spec']),
          'steps': [['.'.join(st['path']), st['mode'], U.size(st['new'])] for st in case['steps']]}

def run(ck):
  from ..common.rtlgen import quiet_dump_dag
  quiet_dump_dag()
  rng = ck.rng
  for name, spec, steps, flags in directed():
    case = {'kind': 'directed:' + name, 'spec': spec, 'steps': steps, 'flags': flags, 'params': flags.get('params', []),
            'inputs': [[(17 * c + 5 * j + 3) % 256 for j in range(spec['nin'])] for c in range(5)]}
    run_case(ck, case)
    U.unload()
    ck.count(summary(case), True)
    ck.hist('kind', 'directed')
  n = 300 if ck.tier == 'quick' else 5000
  g = U.Gen(rng)
  g.feat = FEAT
  for idx in range(n):
    case = random_case(rng, g, idx)
    run_case(ck, case)
    if idx % 8 == 7: U.unload()
    ck.count(summary(case), nontrivial(case))
    ck.hist('kind', 'random'); ck.hist('top_size', U.size(case['spec'])); ck.hist('top_depth', U.depth(case['spec']))
    ck.hist('nsteps', len(case['steps']))
    if ck.tier == 'quick' and ck.elapsed() > 42: break
    if ck.tier == 'thorough' and ck.elapsed() > 540: break

def replay(ck, data):
  from ..common.rtlgen import quiet_dump_dag
  quiet_dump_dag()
  case = data['case']
  print(f'replaying {case["kind"]}: top C{case["spec"]["uid"]}, steps',
        [('.'.join(s['path']), s['mode']) for s in case['steps']])
  print(U.module_source(case['spec'], '_orig'))
  for st in case['steps']:
    print(f'# replacement for s.{".".join(st["path"])} ({st["mode"]}):')
    print(U.module_source(st['new'], '_new'))
  found = run_case(ck, case, verbose=True, report=False)
  want = data.get('signature')
  hit = [f for f in found if want is None or f[1] == want]
  print('violations found:', sorted({json.dumps(f[1], sort_keys=True) for f in found}))
  return 1 if hit else 0
