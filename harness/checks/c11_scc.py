"""C11 (also C01/C02) — the SCC partition (Kosaraju) and the SCC-level schedule of the cyclic-capable schedulers.

Helper module of c11.py (`run(ck)`, `replay(ck, data)`).

proof:          lean/PymtlVerif/Props/C11s.lean (model: Model/Scc.lean; lemmas: Proofs/Scc*.lean): for every finite graph and every
                iteration order the groups returned by kosaraju_scc are the strongly connected components, G_new is the
                condensation and acyclic, scc_schedule is a complete topological order of it (whatever the worklist discipline)
correspondence: (i)  the real `kosaraju_scc(G, G_T)` on random graphs (chains of cycles, nested cycles, DAGs, one big cycle,
                     disconnected parts, self loops; 1-40 vertices; dict order = `verts` order) against the model: SCCs (ordered
                     list of sets) and G_new EXACTLY;
                (ii) the real DynamicSchedulePass / Mamba2020Pass / OpenLoopCLPass on generated designs (acyclic rtlgen designs,
                     the c11 cyclic kinds, designs whose block graph is a random digraph with several SCCs): the arguments and
                     results of kosaraju_scc are recorded by a wrapper around the module attribute (harness process only) and
                     compared with the model exactly; the partition and group order read back from `update_schedule` are
                     evaluated with the model's executable checkers (`scc check`); DynamicSchedulePass's scc_schedule is
                     compared exactly with the model's worklist sort on the real G_new (real set iteration order)
direct oracle:  an independent Tarjan SCC + condensation in Python on the real result: the real partition must be the set of
                strongly connected components, every group exactly once in the schedule, every inter-group edge forward
"""
import importlib.util, os, random as _random, re, sys

from ..common import leanio, rtlgen
from ..common.leanio import InfraError

DRIVERS = ['scc']
MODULE = 'PymtlVerif.Props.C11s'
THEOREMS = ['PV.C11s.' + t for t in [
  'fuel_sufficient', 'postorder_perm', 'groups_partition', 'vscc_is_group', 'groups_strongly_connected', 'same_group_iff_mutual',
  'gnew_is_condensation', 'condensation_acyclic', 'creation_order', 'scc_schedule_topological', 'scc_schedule_is_kahn_run', 'singleton_not_on_cycle',
  'expanded_schedule_order', 'entries_topological', 'check_sound']]
RULE = ('SCC: random digraphs of eight shapes (sparse/dense random, DAG, one big cycle with chords, chain of cycles, nested cycles sharing vertices, '
        'disconnected parts, tiny exhaustive-like, self loops sprinkled), 1-40 vertices, random labels, dict order and edge order; a graph is non-trivial '
        'if it has a group of >= 2 vertices or >= 2 groups; plus generated designs (block graph = random digraph / the C11 cyclic kinds / acyclic rtlgen designs) '
        'under DynamicSchedulePass, Mamba2020Pass and OpenLoopCLPass; a case = graph or (design, pass)')
TRUSTED = [
  'Model/Scc.lean: kosaraju_scc (iterative DFS with (u, second_visit) stack entries, BFS over G_T in reverse post-order, G_new) and the '
  'InD/worklist sort of schedule_intra_cycle, written from DynamicSchedulePass.py; tied to the real code by exact comparison of SCCs '
  '(ordered list of sets), G_new and scc_schedule on random graphs and on the block graphs of generated designs',
  'Mamba2020Pass (priority pop order) and OpenLoopCLPass (inline copy of Kosaraju, random.shuffle of the vertices, Q.pop(0)) are covered '
  'by the theorems through the parameters `pick` / `V`; their real schedules are compared through the executable checkers '
  '(partitionB, stronglyB, orderPermB, orderTopoB: proved sound in PV.C11s.check_sound) and the independent Tarjan oracle only',
  'the hypothesis WF (distinct keys, edges inside V, G_T = transpose of G) is what schedule_intra_cycle constructs; the harness checks it on every recorded call',
]

# ---------------------------------------------------------------------------------------------
# independent oracle: Tarjan's SCC algorithm (recursive) + condensation
# ---------------------------------------------------------------------------------------------
def tarjan(verts, succ):
  """set of frozensets: the strongly connected components of the graph (verts, succ)"""
  sys.setrecursionlimit(max(sys.getrecursionlimit(), 20000))
  index, low, on, stack, out, counter = {}, {}, set(), [], set(), [0]
  def visit(v):
    index[v] = low[v] = counter[0]; counter[0] += 1
    stack.append(v); on.add(v)
    for w in succ[v]:
      if w not in index:
        visit(w); low[v] = min(low[v], low[w])
      elif w in on:
        low[v] = min(low[v], index[w])
    if low[v] == index[v]:
      comp = set()
      while True:
        w = stack.pop(); on.discard(w); comp.add(w)
        if w == v: break
      out.add(frozenset(comp))
  for v in verts:
    if v not in index: visit(v)
  return out

def oracle_partition(verts, edges, groups, order=None):
  """direct oracle on a real result: `groups` (list of sets, in schedule/creation order) must be exactly the SCCs, each once,
  and every edge between two groups must go forward in the listed order. Returns None or a short reason."""
  succ = {v: [] for v in verts}
  for u, v in edges: succ[u].append(v)
  want = tarjan(verts, succ)
  got = [frozenset(g) for g in groups]
  if len(set(got)) != len(got): return 'a group is listed twice'
  if set(got) != want:
    merged = [sorted(g) for g in got if g not in want]
    return f'partition differs from the strongly connected components (wrong groups: {merged[:4]})'
  pos = {}
  for i, g in enumerate(got):
    for v in g: pos[v] = i
  if order is not None:
    rank = {g: k for k, g in enumerate(order)}
    if sorted(order) != list(range(len(got))): return 'schedule does not contain every group exactly once'
  else:
    rank = {i: i for i in range(len(got))}
  for u, v in edges:
    if pos[u] != pos[v] and not rank[pos[u]] < rank[pos[v]]:
      return f'edge {u}->{v} goes backward between groups {pos[u]} and {pos[v]}'
  return None

# ---------------------------------------------------------------------------------------------
# (i) random graphs
# ---------------------------------------------------------------------------------------------
def gen_graph(rng):
  """(kind, verts (dict order), edges (append order, no duplicates))"""
  kind = rng.choice(['random', 'random', 'dense', 'dag', 'bigcycle', 'chain', 'nested', 'parts', 'tiny'])
  n = rng.randint(1, 40) if kind != 'tiny' else rng.randint(1, 4)
  E = []
  def cyc(vs):
    if len(vs) == 1: return
    for a, b in zip(vs, vs[1:] + vs[:1]): E.append((a, b))
  if kind == 'random':
    for _ in range(rng.randint(0, 2 * n)): E.append((rng.randrange(n), rng.randrange(n)))
  elif kind == 'tiny':
    for _ in range(rng.randint(0, n * n)): E.append((rng.randrange(n), rng.randrange(n)))
  elif kind == 'dense':
    p = rng.choice([0.1, 0.3, 0.6])
    E += [(a, b) for a in range(n) for b in range(n) if rng.random() < p]
  elif kind == 'dag':
    p = rng.choice([0.05, 0.15, 0.4])
    E += [(a, b) for a in range(n) for b in range(a + 1, n) if rng.random() < p]
  elif kind == 'bigcycle':
    cyc(list(range(n)))
    for _ in range(rng.randint(0, n // 2)): E.append((rng.randrange(n), rng.randrange(n)))
  elif kind == 'chain':
    # cycles of random lengths linked by forward edges (sometimes several, sometimes skipping)
    groups, i = [], 0
    while i < n:
      k = rng.randint(1, 6); groups.append(list(range(i, min(n, i + k)))); i += k
    for g in groups: cyc(g)
    for a, b in zip(groups, groups[1:]):
      for _ in range(rng.randint(1, 2)): E.append((rng.choice(a), rng.choice(b)))
    for _ in range(rng.randint(0, 3)):
      if len(groups) > 2:
        x, y = sorted(rng.sample(range(len(groups)), 2)); E.append((rng.choice(groups[x]), rng.choice(groups[y])))
  elif kind == 'nested':
    # a big cycle with inner cycles sharing vertices, plus a tail going out and a tail coming in
    k = max(1, n * 2 // 3)
    cyc(list(range(k)))
    for _ in range(rng.randint(1, 4)):
      sub = sorted(rng.sample(range(k), min(k, rng.randint(1, 5)))); rng.shuffle(sub); cyc(sub)
    for v in range(k, n): E.append((rng.randrange(v), v) if rng.random() < 0.5 else (v, rng.randrange(v)))
  elif kind == 'parts':
    i = 0
    while i < n:
      k = rng.randint(1, 8); part = list(range(i, min(n, i + k))); i += k
      for _ in range(rng.randint(0, 2 * len(part))): E.append((rng.choice(part), rng.choice(part)))
  if rng.random() < 0.3:
    for _ in range(rng.randint(1, 3)): v = rng.randrange(n); E.append((v, v))
  # relabel, drop duplicates (all_constraints is a set), shuffle the append order and the dict order
  lab = list(range(n)); rng.shuffle(lab)
  seen, out = set(), []
  for a, b in E:
    e = (lab[a], lab[b])
    if e not in seen: seen.add(e); out.append(e)
  rng.shuffle(out)
  verts = list(range(n)); rng.shuffle(verts)
  return kind, verts, out

def real_kosaraju(verts, edges, fn=None):
  if fn is None:
    from pymtl3.passes.sim.DynamicSchedulePass import kosaraju_scc as fn
  G = {v: [] for v in verts}; G_T = {v: [] for v in verts}
  for u, v in edges: G[u].append(v); G_T[v].append(u)
  SCCs, G_new = fn(G, G_T)
  return [set(s) for s in SCCs], {i: set(vs) for i, vs in G_new.items()}

def run_line(verts, edges):
  return leanio.line('scc', 'run', ['verts'] + list(verts), ['edges'] + [list(e) for e in edges])

def check_line(verts, edges, groups, order):
  return leanio.line('scc', 'check', ['verts'] + list(verts), ['edges'] + [list(e) for e in edges],
                     ['groups'] + [sorted(g) for g in groups], ['order'] + list(order))

def parse_run(rep):
  p = leanio.parse_sexp(rep)
  if not p or p[0] != 'run': raise InfraError(f'unexpected scc reply {rep[:200]}')
  d = {x[0]: x[1:] for x in p[1:]}
  return {'po': [int(x) for x in d['po']], 'sccs': [set(map(int, g)) for g in d['sccs']],
          'gnew': {i: set(map(int, g)) for i, g in enumerate(d['gnew'])}, 'gnew_order': [[int(x) for x in g] for g in d['gnew']],
          'lifo': [int(x) for x in d['lifo']], 'fifo': [int(x) for x in d['fifo']]}

def jcase(verts, edges, **kw):
  c = {'scc': True, 'verts': list(verts), 'edges': [list(e) for e in edges]}
  c.update(kw)
  return c

def part_graphs(ck, n):
  rng = ck.rng
  lines, meta = [], []
  for _ in range(n):
    kind, verts, edges = gen_graph(rng)
    case = jcase(verts, edges)
    try:
      S, Gn = real_kosaraju(verts, edges)
    except Exception as e:
      ck.count(case, True)
      ck.violation('scc-partition-wrong', {'where': 'kosaraju_scc', 'error': type(e).__name__}, case,
                   {'error': f'{type(e).__name__}: {str(e)[:200]}', 'oracle': 'kosaraju_scc returns the strongly connected components of every finite graph'})
      continue
    nontrivial = any(len(s) > 1 for s in S)
    ck.count(case, nontrivial or len(S) > 1); ck.hist('scc_graph_kind', kind); ck.hist('scc_graph_groups', min(len(S), 12))
    ck.hist('scc_graph_nontrivial', int(nontrivial)); ck.hist('scc_graph_largest', min(max(len(s) for s in S), 12))
    # direct oracle first: the real partition is the SCC decomposition, created in topological order; G_new is the condensation
    why = oracle_partition(verts, edges, S)
    if why is None:
      pos = {v: i for i, s in enumerate(S) for v in s}
      cond = {i: set() for i in range(len(S))}
      for u, v in edges:
        if pos[u] != pos[v]: cond[pos[u]].add(pos[v])
      if cond != Gn: why = 'G_new is not the condensation of the returned partition'
    if why is not None:
      ck.violation('scc-partition-wrong', {'where': 'kosaraju_scc'}, case,
                   {'SCCs': [sorted(s) for s in S], 'G_new': {i: sorted(v) for i, v in Gn.items()}, 'oracle': why})
    lines.append(run_line(verts, edges)); meta.append(('run', case, S, Gn))
    lines.append(check_line(verts, edges, S, range(len(S)))); meta.append(('check', case, S, Gn))
  for (what, case, S, Gn), rep in zip(meta, ck.drv('scc').batch(lines)):
    if what == 'run':
      m = parse_run(rep)
      if m['sccs'] != S or m['gnew'] != Gn:
        ck.disagreement('Model kosaraju ≈ kosaraju_scc (SCCs in creation order, G_new)', case,
                        {'sccs': [sorted(s) for s in m['sccs']], 'gnew': m['gnew_order']},
                        {'sccs': [sorted(s) for s in S], 'gnew': {i: sorted(v) for i, v in Gn.items()}})
    elif rep != 'check 1 1 1 1':
      ck.disagreement('executable checkers accept the real kosaraju_scc result (partition, strongly connected, acyclic, creation order topological)',
                      case, rep, {'sccs': [sorted(s) for s in S]})

# ---------------------------------------------------------------------------------------------
# (ii) real scheduling passes on generated designs
# ---------------------------------------------------------------------------------------------
def gen_digraph_design(rng):
  """a design whose update-block graph is a random digraph (several SCCs of several shapes): block i drives wire x_i from the
  wires of its predecessors; monotone (or/and), so every loop converges (only scheduling is exercised here)"""
  d = rtlgen.Design(rng, next(rtlgen._uid))
  w = rng.choice([1, 2, 4, 8])
  d.new_sig('', 'reset', 1, 'in')
  i0 = d.new_sig('', 'in0', w, 'in'); i1 = d.new_sig('', 'in1', w, 'in')
  out = d.new_sig('', 'out0', w, 'out')
  while True:
    kind, verts, edges = gen_graph(rng)
    if 2 <= len(verts) <= 14 and kind != 'tiny': break
  edges = [(a, b) for (a, b) in edges if a != b]          # a block reading its own output is outside the model (GenDAGPass ignores it)
  n = len(verts)
  xs = {v: d.new_sig('', f'x{v}', w, 'wire') for v in verts}
  R = lambda s: ('r', s.idx, 0, s.width)
  op = rng.choice(['or', 'and'])
  order = list(verts); rng.shuffle(order)
  for v in order:
    preds = [a for (a, b) in edges if b == v]
    e = R(rng.choice([i0, i1]))
    for a in preds: e = ('b', op, w, e, R(xs[a]))
    bid = d.new_id()
    d.blocks.append({'id': bid, 'name': f'blk_{bid}', 'comp': '', 'kind': 'comb', 'asgs': [((xs[v].idx, 0, w), e)], 'styles': {}})
  bid = d.new_id()
  d.blocks.append({'id': bid, 'name': f'blk_{bid}', 'comp': '', 'kind': 'comb', 'asgs': [((out.idx, 0, w), R(xs[rng.choice(verts)]))], 'styles': {}})
  return d, kind

class Recorder:
  """records the calls of kosaraju_scc made by DynamicSchedulePass / Mamba2020Pass (wrapper around the module attribute, harness
  process only; /repo is not modified)"""
  def __init__(self):
    import pymtl3.passes.sim.DynamicSchedulePass as dsp
    import pymtl3.passes.mamba.Mamba2020Pass as mp
    self.mods = [dsp, mp]
    self.orig = dsp.kosaraju_scc
    self.calls = []
  def __enter__(self):
    def wrapped(G, G_T):
      SCCs, G_new = self.orig(G, G_T)
      self.calls.append((G, G_T, SCCs, G_new))
      return SCCs, G_new
    for m in self.mods: m.kosaraju_scc = wrapped
    return self
  def __exit__(self, *a):
    for m in self.mods: m.kosaraju_scc = self.orig

class openloop_names:
  """supply the names OpenLoopCLPass forgets to import (harness process only, and only if they are missing)"""
  def __enter__(self):
    import pymtl3.passes.autotick.OpenLoopCLPass as m
    from pymtl3.datatypes import Bits, is_bitstruct_class
    self.m, self.added = m, []
    for name, val in (('Bits', Bits), ('is_bitstruct_class', is_bitstruct_class)):
      if not hasattr(m, name): setattr(m, name, val); self.added.append(name)
  def __exit__(self, *a):
    for name in self.added: delattr(self.m, name)

def apply_flow(cls, flow, seed):
  """elaborate + schedule; returns top"""
  rtlgen.quiet_dump_dag()
  top = cls(); top.elaborate()
  if flow == 'default':
    from pymtl3.passes.PassGroups import DefaultPassGroup
    top.apply(DefaultPassGroup())
  elif flow == 'mamba':
    from pymtl3.passes.mamba.PassGroups import Mamba2020
    top.apply(Mamba2020(print_line_trace=False))
  elif flow == 'openloop':
    from pymtl3.passes.sim.GenDAGPass import GenDAGPass
    from pymtl3.passes.sim.WrapGreenletPass import WrapGreenletPass
    from pymtl3.passes.autotick.OpenLoopCLPass import OpenLoopCLPass
    GenDAGPass()(top); WrapGreenletPass()(top)
    _random.seed(seed)                         # OpenLoopCLPass shuffles the vertices with the global PRNG
    OpenLoopCLPass(print_line_trace=False)(top)
  else: raise ValueError(flow)
  return top

def inner_blocks(fn):
  """the update blocks run by a schedule entry (a block, a Mamba meta block, or an SCC wrapper), as function objects"""
  name = getattr(fn, '__name__', '')
  g = getattr(fn, '__globals__', {})
  if name.startswith('meta_block'):
    out, i = [], 0
    while f'blk{i}' in g: out.append(g[f'blk{i}']); i += 1
    return ('meta', out)
  if name.startswith('wrapped_SCC'):
    if 'scc_tick_func' in g:                                   # DynamicSchedulePass
      return ('scc', list(g['scc_tick_func'].__closure__[0].cell_contents))
    if 'scc' in g and isinstance(g['scc'], list):              # OpenLoopCLPass
      return ('scc', list(g['scc']))
    import inspect
    src = inspect.getsource(fn)                                 # Mamba2020Pass: blk<i>() / meta_block<k>() calls in the body
    blks = []
    for m in re.finditer(r'^\s*(\w+)\(\)', src, re.M):
      if m.group(1) in g and callable(g[m.group(1)]) and m.group(1) != name: blks.append(g[m.group(1)])
    out = []
    for b in blks:
      k, sub = inner_blocks(b)
      out += sub if k == 'meta' else [b]
    return ('scc', out)
  return ('blk', [fn])

def real_update_schedule(top, flow):
  """the combinational schedule the pass produced"""
  if flow != 'openloop': return list(top._sched.update_schedule)
  # OpenLoopCLPass keeps its schedule in local variables: `up = SimpleTickPass.gen_tick_function( ups_no_method )` is a free
  # variable of the sim_reset closure, and the schedule list is the free variable of that tick function
  fn = top.sim_reset
  cells = dict(zip(fn.__code__.co_freevars, fn.__closure__))
  up = cells['up'].cell_contents
  return list(dict(zip(up.__code__.co_freevars, up.__closure__))['schedule'].cell_contents)

def schedule_groups(top, V, flow):
  """the real partition in schedule order, read back from the pass's schedule: list of lists of block functions"""
  groups = []
  def walk(fn):
    kind, blks = inner_blocks(fn)
    if kind == 'blk':
      if fn not in V: raise InfraError(f'schedule entry {getattr(fn, "__name__", fn)!r} is not an update block of V')
      groups.append([fn])
    elif kind == 'meta':
      for b in blks: walk(b)
    else:
      for b in blks:
        if b not in V: raise InfraError(f'block {getattr(b, "__name__", b)!r} inside an SCC wrapper is not in V')
      groups.append(blks)
  for fn in real_update_schedule(top, flow): walk(fn)
  return groups

def real_graph(top):
  """V and E the way schedule_intra_cycle builds them"""
  V = top._dag.final_upblks - top.get_all_update_ff()
  E = [(u, v) for (u, v) in top._dag.all_constraints if u in V and v in V]
  return V, E

def part_designs(ck, n):
  from . import c11 as c11mod
  rng = ck.rng
  lines, meta = [], []
  flows = ['default', 'mamba', 'openloop']
  for k in range(n):
    r = rng.random()
    if r < 0.45:
      d, shape = gen_digraph_design(rng); shape = 'digraph-' + shape
    elif r < 0.8:
      shape = rng.choice(['false', 'conv', 'ring', 'ring', 'bigring', 'div', 'divcond', 'structloop'])
      d, _ = c11mod.gen_cyclic(rng, shape)
    else:
      d = rtlgen.generate(rng, max_blocks=rng.choice([4, 8, 12]), with_regs=rng.random() < 0.5); shape = 'acyclic'
    src = d.source()
    cls = rtlgen.load_class(ck.workdir, d)
    for flow in flows:
      seed = rng.getrandbits(32)
      case = {'scc': True, 'source': src, 'flow': flow, 'seed': seed, 'cls': d.cls_name('')}
      ck.count({'scc_design': hash(src) & 0xffffffff, 'flow': flow}, shape != 'acyclic'); ck.hist('scc_design_shape', shape); ck.hist('scc_flow', flow)
      with Recorder() as rec:
        try:
          try:
            top = apply_flow(cls, flow, seed)
          except NameError as e:
            # OpenLoopCLPass uses `Bits` / `is_bitstruct_class` without importing them: every design with a non-trivial SCC
            # dies while the SCC wrapper is generated (after the partition and scc_schedule have been computed). Reported as
            # a violation; the partition is still checked, with the two names supplied in the harness process only.
            if flow != 'openloop' or e.name not in ('Bits', 'is_bitstruct_class'): raise
            ck.violation('pass-group-failed-on-cyclic-design', {'flow': flow, 'error': 'NameError', 'name': e.name}, case,
                         {'error': f'NameError: {e}', 'shape': shape, 'where': 'OpenLoopCLPass.schedule_with_top_level_callee, SCC wrapper generation',
                          'oracle': 'a cyclic group is either iterated to a fixed point or reported with UpblkCyclicError'})
            with openloop_names():
              top = apply_flow(cls, flow, seed)
        except Exception as e:
          ck.violation('pass-group-failed-on-cyclic-design', {'flow': flow, 'kind': shape, 'error': type(e).__name__}, case,
                       {'error': f'{type(e).__name__}: {str(e)[:300]}', 'oracle': 'a design whose loops all carry signals must be scheduled'})
          continue
      V, E = real_graph(top)
      if flow != 'openloop':
        if len(rec.calls) != 1: raise InfraError(f'{flow}: kosaraju_scc called {len(rec.calls)} times')
        G, G_T, SCCs, G_new = rec.calls[0]
        verts = list(G.keys())                                   # the dict order the real call iterated
        if set(verts) != set(V): raise InfraError('recorded G has other keys than V')
        # the hypothesis WF of the theorems, on the real arguments
        wf = (len(set(verts)) == len(verts) and all(v in G for vs in G.values() for v in vs) and
              sorted((id(u), id(v)) for u in G for v in G[u]) == sorted((id(u), id(v)) for v in G_T for u in G_T[v]))
        if not wf:
          ck.disagreement('arguments of kosaraju_scc satisfy WF (distinct keys, edges inside V, G_T transpose of G)', case, 'WF', 'violated')
      else:
        verts = list(V)
      idx = {b: i for i, b in enumerate(verts)}
      nverts = list(range(len(verts)))
      if flow != 'openloop':
        nedges = [(idx[u], idx[v]) for u in verts for v in G[u]]   # adjacency orders of the real G
      else:
        nedges = [(idx[u], idx[v]) for (u, v) in E]
      if sorted(nedges) != sorted((idx[u], idx[v]) for (u, v) in E): raise InfraError('recorded G differs from all_constraints restricted to V')
      groups = [[idx[b] for b in g] for g in schedule_groups(top, V, flow)]
      ck.hist('scc_design_groups', min(len(groups), 12)); ck.hist('scc_design_largest', min(max((len(g) for g in groups), default=0), 12))
      gcase = dict(case, verts=nverts, edges=[list(e) for e in nedges], names=[getattr(b, '__name__', '?') for b in verts])
      # direct oracle: the scheduled partition is the SCC decomposition, each group once, inter-group edges forward.
      # (The intra-SCC BFS of the three passes starts from `Q.append(x)` once per edge from the predecessor group, so a block
      # with two such edges is listed - and run - twice per sweep of its group: a harmless quirk, counted in the histogram
      # `scc_inner_duplicate`; the partition is a matter of sets.)
      ck.hist('scc_inner_duplicate', int(any(len(set(g)) != len(g) for g in groups)))
      groups = [sorted(set(g), key=g.index) for g in groups]
      flat = [v for g in groups for v in g]
      why = None
      if sorted(flat) != nverts: why = 'the schedule does not put every block of V in exactly one group'
      else: why = oracle_partition(nverts, nedges, [set(g) for g in groups])
      if why is not None:
        ck.violation('scc-partition-wrong', {'where': flow}, gcase, {'groups': groups, 'oracle': why})
        continue
      lines.append(check_line(nverts, nedges, groups, range(len(groups)))); meta.append(('check', gcase, groups, None))
      if flow != 'openloop':
        S = [set(idx[b] for b in s) for s in SCCs]
        Gn = {i: set(vs) for i, vs in G_new.items()}
        lines.append(run_line(nverts, nedges)); meta.append(('run', gcase, S, Gn))
        if flow == 'default':
          # scc_schedule of DynamicSchedulePass: group index of every scheduled group, against the model's Q.pop() sort on the
          # real G_new with the real iteration order of its sets
          where = {frozenset(s): i for i, s in enumerate(S)}
          real_sched = [where[frozenset(g)] for g in groups]
          adj = [list(G_new[i]) for i in range(len(SCCs))]
          lines.append(leanio.line('scc', 'topo', 'lifo', ['adj'] + adj)); meta.append(('topo', gcase, real_sched, adj))
  for (what, case, a, b), rep in zip(meta, ck.drv('scc').batch(lines)):
    if what == 'check':
      if rep != 'check 1 1 1 1':
        ck.disagreement('real schedule satisfies the executable checkers (partition, strongly connected, condensation acyclic, order topological)',
                        case, rep, {'groups': a})
    elif what == 'run':
      m = parse_run(rep)
      if m['sccs'] != a or m['gnew'] != b:
        ck.disagreement('Model kosaraju ≈ kosaraju_scc as called by the pass (SCCs in creation order, G_new)', case,
                        {'sccs': [sorted(s) for s in m['sccs']], 'gnew': m['gnew_order']},
                        {'sccs': [sorted(s) for s in a], 'gnew': {i: sorted(v) for i, v in b.items()}})
    else:
      p = leanio.parse_sexp(rep)
      sched = [int(x) for x in dict((x[0], x[1:]) for x in p[1:])['sched']]
      if sched != a:
        ck.disagreement('Model topo (Q.pop()) ≈ scc_schedule of DynamicSchedulePass', case, sched, {'scc_schedule': a, 'G_new': b})

def run(ck):
  quick = ck.tier == 'quick'
  ng, nd = (1500, 150) if quick else (60000, 3000)
  part_graphs(ck, ng)
  part_designs(ck, nd)
  ck.extra_cov['scc'] = {'graphs': ng, 'designs': nd, 'flows': ['default', 'mamba', 'openloop']}

# ---------------------------------------------------------------------------------------------
def replay(ck, data):
  """re-run a recorded SCC case on the model, the real code and the oracle; print all three; 1 if they differ"""
  case = data.get('case') or {}
  print(data.get('kind'), data.get('signature')); print(str(data.get('detail'))[:1500])
  bad = 0
  if 'source' in case:
    path = os.path.join(ck.workdir, f'pvscc_replay_{os.getpid()}.py')
    with open(path, 'w') as f: f.write(case['source'])
    spec = importlib.util.spec_from_file_location('pvscc_replay', path); mod = importlib.util.module_from_spec(spec)
    sys.modules['pvscc_replay'] = mod; spec.loader.exec_module(mod)
    cls = getattr(mod, case['cls'])
    with Recorder() as rec:
      try:
        top = apply_flow(cls, case['flow'], case.get('seed', 0))
      except Exception as e:
        print('real pass    :', f'{type(e).__name__}: {e}')
        if not (isinstance(e, NameError) and case['flow'] == 'openloop'): return 1
        bad = 1
        with openloop_names():
          top = apply_flow(cls, case['flow'], case.get('seed', 0))
    V, E = real_graph(top)
    verts = list(rec.calls[0][0].keys()) if rec.calls else list(V)
    idx = {b: i for i, b in enumerate(verts)}
    nverts = list(range(len(verts)))
    nedges = [(idx[u], idx[v]) for u in verts for v in rec.calls[0][0][u]] if rec.calls else [(idx[u], idx[v]) for (u, v) in E]
    groups = [[idx[b] for b in g] for g in schedule_groups(top, V, case['flow'])]
    groups = [sorted(set(g), key=g.index) for g in groups]
    print('blocks       :', {i: getattr(b, '__name__', '?') for b, i in idx.items()})
    print('edges        :', nedges)
    print('real groups  :', groups)
    why = oracle_partition(nverts, nedges, [set(g) for g in groups]) if sorted(v for g in groups for v in g) == nverts else 'not every block exactly once'
    print('oracle       :', why or 'ok')
    rep = ck.drv('scc').batch([run_line(nverts, nedges), check_line(nverts, nedges, groups, range(len(groups)))])
    print('model        :', rep[0]); print('checkers     :', rep[1])
    bad |= int(why is not None or rep[1] != 'check 1 1 1 1')
    if rec.calls:
      S = [set(idx[b] for b in s) for s in rec.calls[0][2]]
      print('kosaraju_scc :', [sorted(s) for s in S], {i: sorted(v) for i, v in rec.calls[0][3].items()})
      m = parse_run(rep[0])
      bad |= int(m['sccs'] != S or m['gnew'] != {i: set(v) for i, v in rec.calls[0][3].items()})
    return bad
  verts, edges = case['verts'], [tuple(e) for e in case['edges']]
  S, Gn = real_kosaraju(verts, edges)
  print('real SCCs    :', [sorted(s) for s in S]); print('real G_new   :', {i: sorted(v) for i, v in Gn.items()})
  why = oracle_partition(verts, edges, S)
  print('oracle       :', why or 'ok')
  rep = ck.drv('scc').batch([run_line(verts, edges), check_line(verts, edges, S, range(len(S)))])
  print('model        :', rep[0]); print('checkers     :', rep[1])
  m = parse_run(rep[0])
  return int(why is not None or m['sccs'] != S or m['gnew'] != Gn or rep[1] != 'check 1 1 1 1')
