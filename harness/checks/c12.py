"""C12 — the Yosys-compatible translation is equivalent, with a faithful flat port map.

proof:          lean/PymtlVerif/Props/C12.lean (flat_is_slice, flat_partition, flat_names_injective, expr_correct_yosys,
                stmt_correct_yosys, singleDriver_sound) over Model/Flat.lean, Model/SV.lean, Model/SVMod.lean, Model/VTr.lean
correspondence: generated component hierarchies with the emphasis on port types (structs, nested structs, list fields, lists of
                ports, interfaces) -> YosysTranslationPass -> emitted plain-Verilog text -> c03_svparse -> Lean semantics:
                (1) single driver / undriven / well-formedness, (2) the emitted top module declares exactly the flattened
                ports `Flat.portLeaves` predicts (names, directions, widths), (3) every flattened input leaf is driven with
                the slice of to_bits() of the PyMTL port the flat map names, every flattened output leaf is compared with the
                slice of to_bits() of the PyMTL output port, cycle by cycle (so a wrong slice or a wrong leaf name is an output
                mismatch), (4) per update block: parsed text vs `VTr.trStmt .yosys` of the real typed RTLIR on sampled stores.
direct oracle:  output-leaf mismatch between the Lean-evaluated parsed real text and the real PyMTL simulation; multi-driver =
                two processes of the elaborated text write the same bit (footprints computed from the text alone).
"""
from . import c03_gen as G
from . import c03_util as U
from . import c03_corpus as K
from . import c03
from . import c03_sdecl as SD

PID = 'C12'
DRIVERS = ['sv']
MODULE = 'PymtlVerif.Props.C12'
THEOREMS = ['PV.C12.' + t for t in [
  'flat_is_slice', 'flat_partition', 'flat_names_injective', 'port_names_injective', 'to_bits_lt',
  'expr_correct_yosys', 'stmt_correct_yosys', 'singleDriver_sound', 'design_fixpoint_unique']]
TRUSTED = c03.TRUSTED + [
  'Model/Flat.lean: flat port map written from YosysStructuralTranslatorL1/L2 (port_gen / vec_conn_*_gen) and bitstructs.py to_bits; '
  'tied to the real pass by the port-declaration comparison and by driving / observing every flattened leaf',
]
ASSUMPTIONS = c03.ASSUMPTIONS + [
  'the expression theorem for the Yosys backend excludes struct member access in reference position (flattened names a__b): those forms are covered by the per-block tie and the simulation only',
  'loops of the Yosys backend (integer loop variable, `v = v + step`) are covered by the tie and the simulation, not by the loop theorem (proved for the Verilog backend, ascending ranges)',
]
RULE = c03.RULE + '; C12: port data types drawn from Bits / flat, nested and list-field bitstructs / lists of ports / interfaces; every leaf of every port is driven or observed in every cycle'

# ---- begin: flat ports, wire forms, flat port <-> wire form connections, instances and operand rendering of the Yosys structural
#      translator (Model/SDecl.lean, Props/C03d.lean, harness/checks/c03_sdecl.py)
DRIVERS = DRIVERS + SD.DRIVERS
MODULE = [MODULE, SD.MODULE]
THEOREMS = THEOREMS + SD.THEOREMS_YOSYS
THEOREM_MODULE = {t: SD.MODULE for t in SD.THEOREMS_YOSYS}
TRUSTED = TRUSTED + SD.TRUSTED
ASSUMPTIONS = ASSUMPTIONS + SD.ASSUMPTIONS
# ---- end

# ---- begin: signedness of the Yosys backend's `integer` loop variables (Model/SV.lean `signedOf` / `evalC`, Model/VTr.lean `signSafe`,
#      Proofs/SVSigned.lean; known finding C12-yosys-signed-loopvar)
THEOREMS = THEOREMS + ['PV.C12.' + t for t in [
  'expr_correct_yosys_ctx', 'signed_loopvar_counterexample', 'signed_loopvar_mod_counterexample', 'counterexamples_not_signSafe']]
ASSUMPTIONS = ASSUMPTIONS + [
  'expr_correct_yosys / stmt_correct_yosys hold under `signSafe .yosys` (no `< <= > >=` / `%` node whose two operands are both signed, i.e. built '
  'from loop variables only): without it the emitted text differs from PyMTL (signed_loopvar_counterexample) - known finding C12-yosys-signed-loopvar; '
  'the condition is syntactic: a `%` of two signed operands under an unsigned enclosing context is excluded although the text is correct there',
  'an index / shift amount is the bit pattern of its self-determined operand read as an unsigned number, also when the operand is signed '
  "(`x[3'(i)]`, i = 4, addresses element 4 as in the upstream Verilator import tests of the Yosys backend; by the letter of the LRM a negative index is out of range)",
]
# ---- end

BE = 'yosys'

def run(ck):
  import random
  cfg = c03.streams(ck)
  stats = {}
  rng = ck.rng
  corpus = [dict(d) for d in K.CORPUS if BE in d.get('backends', ('verilog', 'yosys'))]
  for fid, bes in G.FIXED_STREAMS.items():
    if BE in bes:
      for k in range(cfg['finding_each']): corpus.append(G.gen_fixed(random.Random(rng.getrandbits(64)), BE, fid))
  for k in range(cfg['finding_each'] + 1): corpus += G.gen_history(random.Random(rng.getrandbits(64)), BE)
  U.run_batch(ck, BE, corpus, stats, cfg['ncycles'] + 2, cfg['nstores'])
  fd = [dict(w) for w in K.WITNESSES if BE in w['backends']]      # canonical witnesses first, then randomised instances
  fd += G.extra_witnesses(BE, PID)                                 # (witnesses kept as replay files: known_replays/C12-yosys-signed-loopvar.json)
  # (pending streams run once their finding is registered for this property in known_findings.json)
  streams_ = dict(G.FINDING_STREAMS)
  streams_.update({f: v for f, v in G.PENDING_STREAMS.items() if G.registered(f, PID)})
  for fid, (bes, _) in streams_.items():
    if BE not in bes: continue
    n = cfg['finding_each'] * (6 if fid == G.F10 else 1)
    for k in range(n):
      d = G.gen_finding(random.Random(rng.getrandbits(64)), BE, fid)
      if fid == G.F10:                                   # every variant in every run
        want = ['field-write', 'nested-leaf', 'struct-wire', 'comp-array', 'struct-tmpvar', 'const-array-field'][k % 6]
        while d['variant'] != want: d = G.gen_finding(random.Random(rng.getrandbits(64)), BE, fid)
      fd.append(d)
  # (the designs of the signed-loop-variable finding keep the per-block tie: Model/VTr.lean emits the same signed forms as the real backend)
  U.run_batch(ck, BE, [d for d in fd if d.get('finding') != G.YSL], stats, cfg['ncycles'], 2, tie=False)
  U.run_batch(ck, BE, [d for d in fd if d.get('finding') == G.YSL], stats, cfg['ncycles'], 3, tie=True)
  done = 0
  while done < cfg['clean_c12']:
    n = min(cfg['batch'], cfg['clean_c12'] - done)
    batch = [G.gen_clean(random.Random(rng.getrandbits(64)), BE, {'wide': True, 'structs': 0.8, 'ifc': 0.35}) for _ in range(n)]
    U.run_batch(ck, BE, batch, stats, cfg['ncycles'], cfg['nstores'])
    # "… and hence like the SystemVerilog translation": a sample of the same designs through the Verilog backend
    sv = [dict(d, label='clean-also-verilog') for d in batch[::5]]
    U.run_batch(ck, 'verilog', sv, stats, cfg['ncycles'], 2, tie=False)
    stats['also_through_verilog_backend'] = stats.get('also_through_verilog_backend', 0) + len(sv)
    done += n
    if len([v for v in ck.violations if not str(v.signature.get('finding', 'none')).startswith('F')]) > 40: break
    if ck.tier == 'quick' and ck.elapsed() > 75: break
  ck.extra_cov['pipeline'] = stats
  ck.extra_cov['designs'] = {'corpus': len(corpus), 'finding_streams': len(fd), 'clean': done}
  SD.run(ck, BE)   # last, so that the PRNG streams above do not move: declarations / wire forms / instances vs Model/SDecl

def replay(ck, data):
  return c03.replay(ck, data)
