"""Parser for the SystemVerilog / Verilog subset emitted by the PyMTL3 translation passes (C03, C12).

The grammar is written from IEEE 1800-2017 Annex A, not from the translator:

* expressions follow Table 11-2: primaries (numbers, casts, hierarchical identifiers with selects,
  concatenations and replications optionally followed by ONE select, parenthesised expressions);
  unary and reduction operators apply to a primary and bind tighter than every binary operator;
  binary operators are left associative with the levels  ** | * / % | + - | << >> <<< >>> |
  < <= > >= | == != === !== | & | ^ ~^ ^~ | '|' | && | '||' ; the conditional operator is lowest and right
  associative;
* a select (`[i]`, `[h:l]`, `[b +: w]`, `.member`) is only accepted where A.8.4/A.8.5 allow it: after a
  (hierarchical) identifier — with a part-select only in last position — and once after a
  concatenation / replication.  `(e)[i]`, `N'(e)[i]`, `8'd5[0]`, `x[3:0][1]` are syntax errors;
* statements: begin/end blocks (optionally named), if / else (dangling else binds to the nearest if),
  for loops `for ( [int unsigned] v = e ; e ; v = e | v += e | v -= e )`, blocking and non-blocking
  assignments to a variable lvalue;
* module items: port lists (ANSI style), variable declarations (`logic`, typedef names, `integer`) with
  packed and unpacked dimensions (`integer x;` is a variable of a SIGNED 32-bit type, IEEE 1800-2017 Table 6-8: its
  name is recorded in the module's `signed` list and travels to the Lean semantics, which evaluates expressions
  whose operands are all signed as signed, 11.8.1; `>>>` is kept apart from `>>`), `localparam` with expression / assignment-pattern initialisers,
  `always_comb`, `always_ff @(posedge id)`, `assign`, module instances with named port connections;
  `typedef struct packed { … } name;` at file level.

Anything else raises `SVSyntaxError` (reported by the checks as "emitted text is not syntactically
valid"), with the line number and the offending token.
"""
import re

class SVSyntaxError(Exception):
  def __init__(self, msg, line=None, near=None):
    super().__init__(f'line {line}: {msg}' + (f' near {near!r}' if near is not None else ''))
    self.msg, self.line, self.near = msg, line, near

KEYWORDS = {
  'module', 'endmodule', 'input', 'output', 'inout', 'logic', 'wire', 'reg', 'integer', 'int', 'unsigned', 'signed',
  'localparam', 'parameter', 'typedef', 'struct', 'packed', 'always_comb', 'always_ff', 'always', 'posedge', 'negedge',
  'assign', 'begin', 'end', 'if', 'else', 'for', 'case', 'endcase', 'default', 'function', 'endfunction', 'generate',
  'endgenerate', 'genvar', 'initial',
}

TOKEN_RE = re.compile(r'''
   (?P<ws>\s+)
 | (?P<lc>//[^\n]*)
 | (?P<bc>/\*.*?\*/)
 | (?P<dir>`[A-Za-z_][A-Za-z_0-9]*)
 | (?P<based>(?:[0-9][0-9_]*)?\s*'[sS]?[dDbBhHoO]\s*[0-9a-fA-FxXzZ_]+)
 | (?P<num>[0-9][0-9_]*)
 | (?P<id>[A-Za-z_][A-Za-z_0-9$]*)
 | (?P<op>'\{|<<<|>>>|===|!==|\*\*|<<|>>|<=|>=|==|!=|&&|\|\||~\^|\^~|~&|~\||\+:|-:|\+=|-=|[-+*/%&|^~!<>?:=()\[\]{},;.@#'])
''', re.X | re.S)

class Tok:
  __slots__ = ('kind', 'text', 'line')
  def __init__(self, kind, text, line): self.kind, self.text, self.line = kind, text, line
  def __repr__(self): return f'{self.kind}:{self.text}@{self.line}'

def tokenize(src):
  toks, pos, line = [], 0, 1
  n = len(src)
  while pos < n:
    m = TOKEN_RE.match(src, pos)
    if not m:
      raise SVSyntaxError('illegal character', line, src[pos:pos + 10])
    kind = m.lastgroup
    text = m.group(0)
    if kind == 'dir':
      raise SVSyntaxError('compiler directive outside the supported subset', line, text)
    if kind not in ('ws', 'lc', 'bc'):
      if kind == 'id' and text in KEYWORDS: kind = 'kw'
      toks.append(Tok(kind, text, line))
    line += text.count('\n')
    pos = m.end()
  toks.append(Tok('eof', '', line))
  return toks

def parse_based(text, line):
  m = re.match(r"(?:([0-9][0-9_]*))?\s*'([sS]?)([dDbBhHoO])\s*([0-9a-fA-FxXzZ_]+)$", text)
  size, signed, base, digits = m.group(1), m.group(2), m.group(3).lower(), m.group(4).replace('_', '')
  if signed: raise SVSyntaxError('signed literal outside the supported subset', line, text)
  if re.search(r'[xXzZ?]', digits): raise SVSyntaxError('x/z digits outside the two-state subset', line, text)
  radix = {'d': 10, 'b': 2, 'h': 16, 'o': 8}[base]
  try: v = int(digits, radix)
  except ValueError: raise SVSyntaxError('illegal digit for the base', line, text)
  if size is None: return ('lit', 32, v)
  w = int(size.replace('_', ''))
  if w == 0: raise SVSyntaxError('zero-sized literal', line, text)
  return ('lit', w, v)

UNARY = {'+': 'plus', '-': 'neg', '!': 'lnot', '~': 'bnot', '&': 'rand', '~&': 'rnand', '|': 'ror', '~|': 'rnor',
         '^': 'rxor', '~^': 'rxnor', '^~': 'rxnor'}
# binary levels, lowest precedence first (Table 11-2), all left associative
BIN_LEVELS = [
  {'||': 'lor'},
  {'&&': 'land'},
  {'|': 'bor'},
  {'^': 'bxor', '~^': 'bxnor', '^~': 'bxnor'},
  {'&': 'band'},
  {'==': 'eq', '!=': 'ne', '===': 'eq', '!==': 'ne'},
  {'<': 'lt', '<=': 'le', '>': 'gt', '>=': 'ge'},
  {'<<': 'shl', '>>': 'shr', '<<<': 'shl', '>>>': 'ashr'},    # >>> is arithmetic when the expression type is signed
  {'+': 'add', '-': 'sub'},
  {'*': 'mul', '/': 'div', '%': 'mod'},
  {'**': 'pow'},
]

class Parser:
  def __init__(self, src):
    self.toks = tokenize(src)
    self.i = 0
    self.typedefs = {}           # name -> type tree
    self.modules = []

  # ------------------------------------------------------------------ token helpers
  @property
  def t(self): return self.toks[self.i]
  def peek(self, k=1): return self.toks[min(self.i + k, len(self.toks) - 1)]
  def err(self, msg): raise SVSyntaxError(msg, self.t.line, self.t.text)
  def at(self, text): return self.t.text == text and self.t.kind in ('op', 'kw')
  def accept(self, text):
    if self.at(text):
      self.i += 1; return True
    return False
  def expect(self, text):
    if not self.accept(text): self.err(f'expected {text!r}')
  def ident(self):
    if self.t.kind != 'id': self.err('expected identifier')
    x = self.t.text; self.i += 1
    return x

  # ------------------------------------------------------------------ expressions
  def expr(self):
    c = self.binary(0)
    if self.accept('?'):
      t = self.expr()
      self.expect(':')
      f = self.expr()          # right associative
      return ('cond', c, t, f)
    return c

  def binary(self, lvl):
    if lvl == len(BIN_LEVELS): return self.unary()
    ops = BIN_LEVELS[lvl]
    a = self.binary(lvl + 1)
    while self.t.kind == 'op' and self.t.text in ops:
      op = ops[self.t.text]; self.i += 1
      b = self.binary(lvl + 1)
      a = ('bin', op, a, b)
    return a

  def unary(self):
    if self.t.kind == 'op' and self.t.text in UNARY:
      op = UNARY[self.t.text]; self.i += 1
      # A.8.3: unary_operator { attribute_instance } primary
      if self.t.kind == 'op' and self.t.text in UNARY:
        self.err('a unary operator must be followed by a primary')
      return ('un', op, self.primary())
    return self.primary()

  def primary(self):
    t = self.t
    if t.kind == 'based':
      self.i += 1
      return parse_based(t.text, t.line)
    if t.kind == 'num':
      self.i += 1
      v = int(t.text.replace('_', ''))
      if self.at("'"):                 # casting_type ' ( expression )
        self.i += 1
        self.expect('(')
        e = self.expr()
        self.expect(')')
        if v == 0: raise SVSyntaxError('zero-sized cast', t.line, t.text)
        return ('cast', v, e)
      return ('num', v)
    if t.kind == 'id':
      return self.variable()
    if self.at('('):
      self.i += 1
      e = self.expr()
      self.expect(')')
      return ('paren', e)
    if self.at('{'):
      e = self.concatenation()
      if self.at('['):                 # concatenation [ [ range_expression ] ]
        e = self.one_select(e, allow_more=False)
      return e
    self.err('expected an expression')

  def concatenation(self):
    self.expect('{')
    first = self.expr()
    if self.at('{'):                   # multiple_concatenation: { expression concatenation }
      inner = self.concatenation()
      if inner[0] == 'rep': self.err('replication directly inside replication')
      self.expect('}')
      return ('rep', first, inner[1])
    items = [first]
    while self.accept(','):
      items.append(self.expr())
    self.expect('}')
    return ('cat', items)

  def one_select(self, base, allow_more):
    """[ expr ] | [ expr : expr ] | [ expr +: expr ] ; returns (node, is_part_select)"""
    self.expect('[')
    a = self.expr()
    if self.accept(':'):
      b = self.expr(); self.expect(']')
      node, part = ('rng', base, a, b), True
    elif self.accept('+:'):
      b = self.expr(); self.expect(']')
      node, part = ('psel', base, a, b), True
    elif self.at('-:'):
      self.err('-: part select outside the supported subset')
    else:
      self.expect(']')
      node, part = ('idx', base, a), False
    if allow_more: return node, part
    return node

  def variable(self):
    """hierarchical identifier followed by selects; a part-select must be last (A.8.5 select)"""
    e = ('id', self.ident())
    while True:
      if self.at('.'):
        self.i += 1
        e = ('mem', e, self.ident())
      elif self.at('['):
        e, part = self.one_select(e, allow_more=True)
        if part:
          if self.at('[') or self.at('.'):
            self.err('select after a part-select')
          return e
      else:
        return e

  def lvalue(self):
    if self.t.kind != 'id': self.err('expected a variable lvalue')
    return self.variable()

  # ------------------------------------------------------------------ statements
  def statement(self):
    if self.accept('begin'):
      if self.accept(':'): self.ident()
      body = []
      while not self.at('end'):
        if self.t.kind == 'eof': self.err('missing end')
        body.append(self.statement())
      self.expect('end')
      return ('block', body)
    if self.accept('if'):
      self.expect('(')
      c = self.expr()
      self.expect(')')
      th = self.statement()
      el = None
      if self.accept('else'): el = self.statement()
      return ('if', c, th, el)
    if self.accept('for'):
      self.expect('(')
      decl = False
      if self.accept('int'):
        self.expect('unsigned'); decl = True
      v = self.ident()
      self.expect('=')
      init = self.expr()
      self.expect(';')
      cond = self.expr()
      self.expect(';')
      v2 = self.ident()
      if v2 != v: self.err('loop step assigns a different variable')
      if self.accept('+='): step = ('bin', 'add', ('id', v), self.expr())
      elif self.accept('-='): step = ('bin', 'sub', ('id', v), self.expr())
      else:
        self.expect('=')
        step = self.expr()
      self.expect(')')
      body = self.statement()
      return ('for', decl, v, init, cond, step, body)
    lhs = self.lvalue()
    if self.accept('='): kind = 'b'
    elif self.accept('<='): kind = 'nb'
    else: self.err("expected '=' or '<='")
    rhs = self.expr()
    self.expect(';')
    return (kind, lhs, rhs)

  # ------------------------------------------------------------------ declarations
  def const_int(self):
    e = self.expr()
    v = const_eval(e)
    if v is None: self.err('constant expression expected')
    return v

  def packed_dims(self):
    dims = []
    while self.at('['):
      self.i += 1
      msb = self.const_int(); self.expect(':'); lsb = self.const_int(); self.expect(']')
      if lsb != 0 or msb < 0: self.err('packed dimension must be [n-1:0]')
      dims.append(msb + 1)
    return dims

  def unpacked_dims(self):
    dims = []
    while self.at('['):
      self.i += 1
      a = self.const_int()
      if self.accept(':'):
        b = self.const_int()
        if a != 0: self.err('unpacked dimension must be [0:n-1]')
        dims.append(b + 1)
      else:
        dims.append(a)
      self.expect(']')
    return dims

  def data_type(self):
    """logic | typedef name, followed by packed dimensions; returns a type tree"""
    if self.accept('logic'):
      dims = self.packed_dims()
      ty = ('vec', dims[-1] if dims else 1)
      for d in reversed(dims[:-1]): ty = ('arr', d, ty)
      return ty
    if self.t.kind == 'id' and self.t.text in self.typedefs:
      base = self.typedefs[self.t.text]; self.i += 1
      ty = base
      for d in reversed(self.packed_dims()): ty = ('arr', d, ty)
      return ty
    self.err('expected a data type')

  def typedef(self):
    self.expect('typedef'); self.expect('struct'); self.expect('packed'); self.expect('{')
    fields = []
    while not self.at('}'):
      ty = self.data_type()
      f = self.ident()
      self.expect(';')
      if any(f == g for g, _ in fields): self.err('duplicate member')
      fields.append((f, ty))
    if not fields: self.err('empty struct')
    self.expect('}')
    name = self.ident()
    self.expect(';')
    if name in self.typedefs: self.err('typedef redefined')
    self.typedefs[name] = ('struct', name, fields)

  def pattern(self):
    """assignment pattern '{ a, b } (nested) or a plain expression; returns a nested list / expr"""
    if self.accept("'{"):
      items = [self.pattern()]
      while self.accept(','): items.append(self.pattern())
      self.expect('}')
      return ['pat'] + items
    return self.expr()

  # ------------------------------------------------------------------ modules
  def module(self):
    self.expect('module')
    name = self.ident()
    m = {'name': name, 'ports': [], 'decls': [], 'params': [], 'items': [], 'line': self.t.line, 'signed': []}
    names = set()
    def declare(x):
      if x in names: self.err(f'{x} declared twice')
      names.add(x)
    self.expect('(')
    if not self.at(')'):
      while True:
        if self.accept('input'): d = 'input'
        elif self.accept('output'): d = 'output'
        else: self.err('expected port direction')
        ty = self.data_type()
        x = self.ident(); declare(x)
        m['ports'].append((d, x, ty, self.unpacked_dims()))
        if not self.accept(','): break
    self.expect(')'); self.expect(';')
    while not self.at('endmodule'):
      if self.t.kind == 'eof': self.err('missing endmodule')
      if self.accept('localparam'):
        ty = self.data_type()
        x = self.ident(); declare(x)
        dims = self.unpacked_dims()
        self.expect('=')
        init = self.pattern()
        self.expect(';')
        m['params'].append((x, ty, dims, init))
      elif self.accept('integer'):
        x = self.ident(); declare(x); self.expect(';')
        m['decls'].append((x, ('vec', 32), []))
        m['signed'].append(x)            # Table 6-8: integer = 4-state (here 2-state) signed 32-bit
      elif self.at('logic') or (self.t.kind == 'id' and self.t.text in self.typedefs and self.peek().kind in ('id',) ) \
           or (self.t.kind == 'id' and self.t.text in self.typedefs and self.peek().text == '['):
        ty = self.data_type()
        x = self.ident(); declare(x)
        dims = self.unpacked_dims()
        self.expect(';')
        m['decls'].append((x, ty, dims))
      elif self.accept('always_comb'):
        nm = self.block_name()
        m['items'].append(('comb', nm, self.statement()))
      elif self.accept('always_ff'):
        self.expect('@'); self.expect('('); self.expect('posedge')
        clk = self.ident()
        self.expect(')')
        nm = self.block_name()
        m['items'].append(('ff', nm, clk, self.statement()))
      elif self.accept('assign'):
        lhs = self.lvalue()
        self.expect('=')
        rhs = self.expr()
        self.expect(';')
        m['items'].append(('assign', lhs, rhs))
      elif self.t.kind == 'id' and self.peek().kind == 'id':
        mod = self.ident(); inst = self.ident(); declare(inst)
        self.expect('(')
        conns = []
        if not self.at(')'):
          while True:
            self.expect('.')
            p = self.ident()
            self.expect('(')
            e = self.expr()
            self.expect(')')
            if any(p == q for q, _ in conns): self.err(f'port {p} connected twice')
            conns.append((p, e))
            if not self.accept(','): break
        self.expect(')'); self.expect(';')
        m['items'].append(('inst', mod, inst, conns))
      else:
        self.err('unexpected module item')
    self.expect('endmodule')
    return m

  def block_name(self):
    # the name of a begin-block following always_*: peek without consuming the statement
    if self.at('begin') and self.peek().text == ':' and self.peek(2).kind == 'id':
      return self.peek(2).text
    return f'anon{self.t.line}'

  def source(self):
    while self.t.kind != 'eof':
      if self.at('typedef'): self.typedef()
      elif self.at('module'):
        m = self.module()
        if any(m['name'] == o['name'] for o in self.modules):
          raise SVSyntaxError(f"module {m['name']} defined twice", m['line'], m['name'])
        self.modules.append(m)
      else: self.err('expected typedef or module')
    return self

def const_eval(e):
  k = e[0]
  if k == 'num': return e[1]
  if k == 'lit': return e[2] % (1 << e[1])
  if k == 'paren': return const_eval(e[1])
  if k == 'bin' and e[1] in ('add', 'sub', 'mul'):
    a, b = const_eval(e[2]), const_eval(e[3])
    if a is None or b is None: return None
    return {'add': a + b, 'sub': a - b, 'mul': a * b}[e[1]]
  return None

def parse(src):
  return Parser(src).source()

# ---------------------------------------------------------------------------------------------
# S-expression rendering for the Lean driver (`sv` handler)
# ---------------------------------------------------------------------------------------------
def ty_sexp(ty):
  if ty[0] == 'vec': return ('vec', ty[1])
  if ty[0] == 'arr': return ('arr', ty[1], ty_sexp(ty[2]))
  if ty[0] == 'struct': return ('struct', ty[1]) + tuple((f, ty_sexp(t)) for f, t in ty[2])
  raise ValueError(ty)

def expr_sexp(e):
  k = e[0]
  if k == 'lit': return ('lit', e[1], e[2])
  if k == 'num': return ('num', e[1])
  if k == 'id': return ('id', e[1])
  if k == 'paren': return expr_sexp(e[1])          # parentheses only group
  if k == 'mem': return ('mem', expr_sexp(e[1]), e[2])
  if k == 'idx': return ('idx', expr_sexp(e[1]), expr_sexp(e[2]))
  if k == 'rng': return ('rng', expr_sexp(e[1]), expr_sexp(e[2]), expr_sexp(e[3]))
  if k == 'psel': return ('psel', expr_sexp(e[1]), expr_sexp(e[2]), expr_sexp(e[3]))
  if k == 'cat': return ('cat',) + tuple(expr_sexp(x) for x in e[1])
  if k == 'rep': return ('rep', expr_sexp(e[1])) + tuple(expr_sexp(x) for x in e[2])
  if k == 'un': return ('un', e[1], expr_sexp(e[2]))
  if k == 'bin': return ('bin', e[1], expr_sexp(e[2]), expr_sexp(e[3]))
  if k == 'cond': return ('cond', expr_sexp(e[1]), expr_sexp(e[2]), expr_sexp(e[3]))
  if k == 'cast': return ('cast', e[1], expr_sexp(e[2]))
  raise ValueError(e)

def stmt_sexp(s):
  k = s[0]
  if k == 'block': return ('block',) + tuple(stmt_sexp(x) for x in s[1])
  if k == 'if':
    return ('if', expr_sexp(s[1]), stmt_sexp(s[2]), stmt_sexp(s[3]) if s[3] is not None else ('block',))
  if k == 'for':
    return ('for', 1 if s[1] else 0, s[2], expr_sexp(s[3]), expr_sexp(s[4]), expr_sexp(s[5]), stmt_sexp(s[6]))
  if k in ('b', 'nb'): return (k, expr_sexp(s[1]), expr_sexp(s[2]))
  raise ValueError(s)

def flatten_pattern(p, dims, line=None):
  """nested '{…} pattern -> list of element expressions in row-major order, checked against dims"""
  if not dims:
    if isinstance(p, list): raise SVSyntaxError('assignment pattern where a scalar is expected', line)
    return [p]
  if not (isinstance(p, list) and p and p[0] == 'pat'): raise SVSyntaxError('assignment pattern expected for an unpacked array', line)
  items = p[1:]
  if len(items) != dims[0]: raise SVSyntaxError(f'assignment pattern has {len(items)} items for dimension {dims[0]}', line)
  out = []
  for it in items: out += flatten_pattern(it, dims[1:], line)
  return out

def module_sexp(m, unsigned_view=None):
  """unsigned_view: names of signed variables to be read as unsigned vectors (diagnosis only: c03_util.run_batch)"""
  ports = tuple((d, x, ty_sexp(ty), tuple(dims)) for d, x, ty, dims in m['ports'])
  decls = tuple((x, ty_sexp(ty), tuple(dims)) for x, ty, dims in m['decls'])
  params = tuple((x, ty_sexp(ty), tuple(dims), tuple(expr_sexp(e) for e in flatten_pattern(init, dims, m['line'])))
                 for x, ty, dims, init in m['params'])
  items = []
  for it in m['items']:
    if it[0] == 'comb': items.append(('comb', it[1], stmt_sexp(it[2])))
    elif it[0] == 'ff': items.append(('ff', it[1], it[2], stmt_sexp(it[3])))
    elif it[0] == 'assign': items.append(('assign', expr_sexp(it[1]), expr_sexp(it[2])))
    elif it[0] == 'inst': items.append(('inst', it[1], it[2], tuple((p, expr_sexp(e)) for p, e in it[3])))
  core = ('module', m['name'], ('ports',) + ports, ('decls',) + decls, ('params',) + params, ('items',) + tuple(items))
  sg = [x for x in m.get('signed', ()) if x not in (unsigned_view or ())]
  return core + (('signed',) + tuple(sg),) if sg else core

def design_sexp(parsed, unsigned_view=None):
  """unsigned_view: {module name: names} of signed variables to be read as unsigned vectors (diagnosis only)"""
  uv = unsigned_view or {}
  return ('design',) + tuple(module_sexp(m, uv.get(m['name'])) for m in parsed.modules)

def loop_index_variables(m):
  """names of the module-level variables that are the index of some `for` statement of the module (text only)"""
  out = set()
  def walk(s):
    k = s[0]
    if k == 'block':
      for x in s[1]: walk(x)
    elif k == 'if':
      walk(s[2])
      if s[3] is not None: walk(s[3])
    elif k == 'for':
      if not s[1]: out.add(s[2])
      walk(s[6])
  for it in m['items']:
    if it[0] == 'comb': walk(it[2])
    elif it[0] == 'ff': walk(it[3])
  return out
