"""C19 — round-robin arbiters grant exactly one requester, fairly.

proof:          lean/PymtlVerif/Props/C19.lean  (model: lean/PymtlVerif/Model/Arb.lean)
correspondence: real RoundRobinArbiter / RoundRobinArbiterEn (pymtl3/stdlib/basic_rtl/arbiters.py, priority register
                RegEnRst from registers.py) simulated with DefaultPassGroup vs PV.Arb.trace, whole input histories;
                grants / priority_en after sim_eval_combinational(), priority_reg.out before and after sim_tick();
                in the exhaustive part also the internal wires kills, grants_int and priority_reg.in_
direct oracle:  `Oracle` below — a restatement of the property on the observed ports only (never looks at the model)
"""
from pymtl3 import DefaultPassGroup
from pymtl3.stdlib.basic_rtl.arbiters import RoundRobinArbiter, RoundRobinArbiterEn

from ..common import leanio

PID = 'C19'
DRIVERS = ['arb']
MODULE = 'PymtlVerif.Props.C19'
THEOREMS = ['PV.C19.' + t for t in [
  'step_pointer', 'reset_pointer', 'onehot_inv', 'onehot_history', 'dead_before_reset',
  'grants_subset', 'grants_onehot0', 'grants_zero_or_onehot', 'grants_nonzero_iff', 'first_from_pointer',
  'grants_closed_form', 'prioEn_iff', 'pointer_update', 'en_low_holds', 'plain_ignores_en',
  'enCount_eq', 'fair_within', 'fair', 'fair_plain', 'fair_reachable']]
TRUSTED = [
  'Model/Arb.lean follows arbiters.py block by block (comb_reqs_int, comb_priority_int, comb_kills, comb_grants_int, '
  'comb_grants, comb_priority_en, the connects into priority_reg.in_) and RegEnRst.up_regenrst with reset_value=1; '
  'a Bits signal is modelled by its unsigned value, the loops by recursion on the bit index',
  'the simulator (DefaultPassGroup scheduling of the update blocks, <<= / flip at the clock edge) is exercised, not modelled: '
  'the model composes the combinational blocks in dependency order and applies the register at the edge',
]
ASSUMPTIONS = [
  'every theorem about grants/fairness assumes the priority register has been reset at least once (Reachable); before the '
  'first reset the register reads 0 and the arbiter grants nothing (theorem dead_before_reset; compared with the model, '
  'excluded from the direct oracle)',
  'fairness windows contain no reset cycle (a reset restarts the window at pointer 0)',
]
RULE = ('construction order: nreqs=1 attempted first for both classes (rejected, or grant = request), then a seed-dependent small size, '
        'exhaustive sizes ascending (plain) / descending (En), nreqs=1 again, random histories shuffled over sizes and variants; '
        'wrapped: the arbiter inside 1-2 levels of GrantMonitor-style parents with 0-3 registers of their own, as the whole design and inside '
        'generated tops with 7-16 arbiters, under every pass group (default, SimpleSim, Unroll, HeuTopo, Mamba2020); '
        'exhaustive: variant x nreqs x pointer position (steered through the ports: request only input p-1 with en high) x '
        'request vector x en x reset; random: histories of 40-300 cycles built from bursts (uniform / sparse / dense / all / '
        'none / one-hot / sticky requester / pair) with per-burst enable and reset probabilities, some starting before the '
        'first reset; one case = one simulated clock cycle (variant, nreqs, pointer, reset, en, reqs); non-trivial = reqs != 0')

VARIANT = {0: 'RoundRobinArbiter', 1: 'RoundRobinArbiterEn'}

# ----------------------------------------------------------------------------- implementation side

def make(has_en, n):
  m = (RoundRobinArbiterEn if has_en else RoundRobinArbiter)(n)
  m.elaborate()
  m.apply(DefaultPassGroup())
  return m

def run_real(has_en, n, hist, wires=False, factory=make):
  """simulate a fresh component over the history; per cycle (prio, grants, priority_en, next[, in_, kills, grants_int])"""
  m = factory(has_en, n)
  out = []
  for r, e, q in hist:
    m.reset @= r
    m.reqs @= q
    if has_en: m.en @= e
    m.sim_eval_combinational()
    row = [int(m.priority_reg.out), int(m.grants), int(m.priority_en)]
    w = [int(m.priority_reg.in_), int(m.kills), int(m.grants_int)] if wires else []
    m.sim_tick()
    row.append(int(m.priority_reg.out))
    out.append(row + w)
  return out

# ----------------------------------------------------------------------------- model side

def model_line(has_en, n, hist, s0=0):
  return leanio.line('arb', 'run', has_en, n, s0, [list(c) for c in hist])

def parse_trace(reply):
  return [[int(x) for x in grp] for grp in leanio.parse_sexp(reply)]

# ----------------------------------------------------------------------------- direct oracle

class Oracle:
  """The property on observables, cycle by cycle.  Independent of the Lean model: plain integer arithmetic."""
  def __init__(self, has_en, n):
    self.has_en, self.n, self.mask = has_en, n, (1 << n) - 1
    self.armed = False            # a reset cycle has happened
    self.wait = [0] * n           # advancing cycles seen while input i requested continuously without being granted

  def cycle(self, r, e, q, prio, g, pe, nxt):
    """returns a list of (kind, text) violations for this cycle"""
    n, mask = self.n, self.mask
    bad = []
    if not self.armed:
      if r:
        if nxt != 1: bad.append(('reset-pointer', f'reset cycle left priority_reg.out={nxt:#b}, expected input 0'))
        self.armed = True
      return bad
    # pointer invariant
    if prio == 0 or prio & (prio - 1) or prio > mask:
      bad.append(('pointer-not-onehot', f'priority_reg.out={prio:#b}'))
      # the pointer-independent clauses still apply
      if g & (g - 1): bad.append(('grants-not-onehot0', f'grants={g:#b}'))
      if g & ~q: bad.append(('grants-not-subset', f'grants={g:#b} reqs={q:#b}'))
      if (g != 0) != (q != 0): bad.append(('grants-nonzero-iff', f'grants={g:#b} reqs={q:#b}'))
      return bad
    p = prio.bit_length() - 1
    if g & ~mask: bad.append(('grants-width', f'grants={g:#b}'))
    if g & (g - 1): bad.append(('grants-not-onehot0', f'grants={g:#b}'))
    if g & ~q: bad.append(('grants-not-subset', f'grants={g:#b} reqs={q:#b}'))
    if (g != 0) != (q != 0): bad.append(('grants-nonzero-iff', f'grants={g:#b} reqs={q:#b}'))
    first = None
    for d in range(n):
      j = (p + d) % n
      if (q >> j) & 1:
        first = j; break
    if first is not None and g != (1 << first):
      bad.append(('not-first-from-pointer', f'pointer={p} reqs={q:#b} grants={g:#b} expected input {first}'))
    adv_en = (g != 0) and (bool(e) or not self.has_en)
    if bool(pe) != adv_en: bad.append(('priority-en', f'priority_en={pe} grants={g:#b} en={e}'))
    if r: want = 1
    elif adv_en: want = ((g << 1) | (g >> (n - 1))) & mask
    else: want = prio
    if nxt != want:
      bad.append(('pointer-update', f'reset={r} en={e} grants={g:#b} pointer {prio:#b} -> {nxt:#b}, expected {want:#b}'))
    # fairness: count advancing cycles that pass while i keeps requesting and is not granted
    if r:
      self.wait = [0] * n
    else:
      for i in range(n):
        if not (q >> i) & 1: self.wait[i] = 0
        elif adv_en:
          if (g >> i) & 1: self.wait[i] = 0
          else:
            self.wait[i] += 1
            if self.wait[i] >= n:
              bad.append(('unfair', f'input {i} requested through {self.wait[i]} advancing cycles without a grant (nreqs={n})'))
    return bad

# ----------------------------------------------------------------------------- history generators

def steer(p, n):
  """a cycle that moves the pointer to p from any pointer: only input p-1 requests, en high"""
  return [0, 1, 1 << ((p - 1) % n)]

def exhaustive_histories(has_en, n):
  """one history per pointer position: reset, then for every (reqs, en, reset) a steering cycle and the test cycle"""
  ens = (0, 1) if has_en else (0,)
  for p in range(n):
    hist, tests = [[1, 0, 0]], []
    for q in range(1 << n):
      for e in ens:
        for r in (0, 1):
          hist.append(steer(p, n))
          tests.append(len(hist))
          hist.append([r, e, q])
    yield p, hist, tests

def rand_reqs(rng, n, mode, st):
  if mode == 'uniform': return rng.getrandbits(n)
  if mode == 'sparse': return sum(1 << i for i in range(n) if rng.random() < 0.15)
  if mode == 'dense': return sum(1 << i for i in range(n) if rng.random() < 0.9)
  if mode == 'all': return (1 << n) - 1
  if mode == 'none': return 0
  if mode == 'onehot': return 1 << rng.randrange(n)
  if mode == 'sticky': return (1 << st[0]) | sum(1 << i for i in range(n) if rng.random() < st[2])
  if mode == 'pair': return (1 << st[0]) | (1 << st[1])
  raise ValueError(mode)

MODES = ['uniform', 'sparse', 'dense', 'all', 'none', 'onehot', 'sticky', 'pair']

def random_history(rng, has_en, n, length):
  hist = []
  if rng.random() < 0.12:
    for _ in range(rng.randint(1, 6)):          # cycles before the first reset (register still 0)
      hist.append([0, rng.randint(0, 1), rng.getrandbits(n)])
  for _ in range(rng.randint(1, 2)):
    hist.append([1, rng.randint(0, 1), rng.getrandbits(n) if rng.random() < 0.5 else 0])
  while len(hist) < length:
    mode = rng.choices(MODES, [4, 2, 3, 2, 1, 2, 5, 1])[0]
    st = (rng.randrange(n), rng.randrange(n), rng.choice([0.1, 0.5, 0.9]))
    pen = rng.choice([0.0, 0.2, 0.5, 0.8, 1.0, 1.0]) if has_en else 0.0
    prst = rng.choice([0.0, 0.0, 0.0, 0.04])
    burst = rng.randint(3, 5 * n) if mode == 'sticky' else rng.randint(1, 24)
    for _ in range(burst):
      hist.append([int(rng.random() < prst), int(rng.random() < pen), rand_reqs(rng, n, mode, st)])
  if not has_en:
    for c in hist: c[1] = 0
  return hist[:length]

# ----------------------------------------------------------------------------- evaluation

def evaluate(ck, has_en, n, hist, model, impl, tag, ctx=None, wrapped=None):
  """oracle on the implementation first, then model vs implementation; returns (#violations, #disagreements)"""
  orc = Oracle(has_en, n)
  nv = nd = 0
  def case(t):
    c = {'hasEn': has_en, 'n': n, 'hist': hist[:t + 1]}
    if ctx: c['many'] = ctx
    if wrapped: c['wrapped'] = wrapped
    return c
  for t, ((r, e, q), row) in enumerate(zip(hist, impl)):
    prio, g, pe, nxt = row[:4]
    armed = orc.armed
    ck.count([has_en, n, prio, r, e, q], q != 0)
    bad = orc.cycle(r, e, q, prio, g, pe, nxt)
    if not armed: ck.hist('cycle', 'before-first-reset')
    elif r: ck.hist('cycle', 'reset')
    elif g == 0: ck.hist('cycle', 'idle')
    elif pe: ck.hist('cycle', 'grant+advance' + ('+wrap' if g < prio else ''))
    else: ck.hist('cycle', 'grant,held(en=0)')
    for kind, text in bad:
      nv += 1
      if nv <= 3:
        ck.violation(kind, {'check': kind, 'variant': VARIANT[has_en]}, case(t),
                     {'cycle': t, 'what': text, 'impl_cycle': row, 'model_cycle': model[t] if t < len(model) else None,
                      'oracle': 'direct restatement of C19 on reqs/en/grants/priority_reg.out', 'part': tag})
    if not bad and (t >= len(model) or model[t] != row[:4]):
      nd += 1
      if nd <= 1:
        ck.disagreement('Model/Arb.trace≈' + VARIANT[has_en], case(t),
                        model[t] if t < len(model) else None, row[:4])
  return nv, nd

def process(ck, items, tag, factory=make):
  """items: list of (has_en, n, hist)"""
  replies = ck.drv('arb').batch([model_line(h, n, hist) for h, n, hist in items])
  for (has_en, n, hist), rep in zip(items, replies):
    model = parse_trace(rep)
    impl = run_real(has_en, n, hist, factory=factory)
    ck.hist('variant', VARIANT[has_en], len(hist)); ck.hist('nreqs', n, len(hist)); ck.hist('part', tag, len(hist))
    evaluate(ck, has_en, n, hist, model, impl, tag)

N1_OK = set()     # variants for which a one-requester instance could be built in this process

def degenerate(ck, factory, when):
  """nreqs = 1, both classes.  The property speaks about two or more requesters; the clean tree rejects nreqs = 1 at
  construction.  Accepted outcomes: rejected (any exception while building), or behaves as the model with n = 1
  (grant = request, pointer trivially at input 0).  Attempted BEFORE the larger arbiters are built (and again after
  them): pymtl3 keeps per-class caches of update-block metadata, so what was constructed earlier in the process can
  change how a later instance of the same class is analysed and scheduled."""
  rng = ck.rng
  for has_en in (0, 1):
    try:
      m = factory(has_en, 1)
    except Exception as e:
      ck.hist('nreqs=1 ' + when, f'{VARIANT[has_en]}: rejected ({type(e).__name__})')
      continue
    N1_OK.add(has_en)
    hist = [[1, 0, 0]] + [[int(rng.random() < 0.05), rng.randint(0, 1) if has_en else 0, rng.randint(0, 1)] for _ in range(40)]
    model = parse_trace(ck.drv('arb').batch([model_line(has_en, 1, hist, s0=1)])[0])
    if hasattr(m, 'priority_reg'):
      ck.hist('nreqs=1 ' + when, f'{VARIANT[has_en]}: built with priority register')
      impl = run_real(has_en, 1, hist, factory=factory)
      evaluate(ck, has_en, 1, hist, parse_trace(ck.drv('arb').batch([model_line(has_en, 1, hist)])[0]), impl, 'nreqs=1')
      continue
    ck.hist('nreqs=1 ' + when, f'{VARIANT[has_en]}: built, no priority register')
    for t, (r, e, q) in enumerate(hist):
      m.reset @= r
      m.reqs @= q
      if has_en: m.en @= e
      m.sim_eval_combinational()
      g = int(m.grants)
      m.sim_tick()
      ck.count([has_en, 1, 1, r, e, q], q != 0)
      if g != q:
        ck.violation('grants-nonzero-iff', {'check': 'grants-nonzero-iff', 'variant': VARIANT[has_en]},
                     {'hasEn': has_en, 'n': 1, 'hist': hist[:t + 1]},
                     {'cycle': t, 'what': f'nreqs=1: grants={g} reqs={q}', 'oracle': 'one requester: grant = request', 'part': 'nreqs=1'})
        break
      if model[t][1] != g:
        ck.disagreement('Model/Arb.trace(n=1)≈' + VARIANT[has_en], {'hasEn': has_en, 'n': 1, 'hist': hist[:t + 1]}, model[t], [1, g])
        break

# ----------------------------------------------------------------------------- many arbiters in one top, every pass group

TOP_SRC = """
from pymtl3 import *
from pymtl3.stdlib.basic_rtl.arbiters import RoundRobinArbiter, RoundRobinArbiterEn

class C19GrantMux( Component ):
  # switch-style use of a grant vector: the granted input's data goes to the output
  def construct( s, n ):
    s.sel = InPort( mk_bits( n ) )
    s.in_ = [ InPort( Bits8 ) for _ in range( n ) ]
    s.out = OutPort( Bits8 )
    @update
    def up_grant_mux():
      s.out @= 0
      for i in range( n ):
        if s.sel[i]:
          s.out @= s.in_[i]

class C19GrantMonitor( Component ):
  # an arbiter inside a component that keeps wrap[0] (0..3) bookkeeping registers of its own; wrap[1:] = further
  # levels of the same wrapping around the arbiter.  (One block name per register count: pymtl3 caches update
  # block metadata per class and block name.)
  def construct( s, has_en, n, wrap ):
    Type = mk_bits( n )
    s.reqs   = InPort ( Type )
    s.en     = InPort ()
    s.grants = OutPort( Type )
    s.last_grants = OutPort( Type )
    s.num_grants  = OutPort( 16 )
    s.last_reqs   = OutPort( Type )
    if len( wrap ) > 1: s.arb = C19GrantMonitor( has_en, n, wrap[1:] )
    else:               s.arb = ( RoundRobinArbiterEn if has_en else RoundRobinArbiter )( n )
    s.arb.reqs   //= s.reqs
    s.arb.grants //= s.grants
    if has_en or len( wrap ) > 1: s.arb.en //= s.en
    nregs = wrap[0]
    if nregs == 1:
      @update_ff
      def up_monitor_1():
        if s.reset: s.last_grants <<= 0
        elif s.grants != 0: s.last_grants <<= s.grants
    elif nregs == 2:
      @update_ff
      def up_monitor_2():
        if s.reset:
          s.last_grants <<= 0
          s.num_grants  <<= 0
        elif s.grants != 0:
          s.last_grants <<= s.grants
          s.num_grants  <<= s.num_grants + 1
    elif nregs == 3:
      @update_ff
      def up_monitor_3():
        s.last_reqs <<= s.reqs
        if s.reset:
          s.last_grants <<= 0
          s.num_grants  <<= 0
        elif s.grants != 0:
          s.last_grants <<= s.grants
          s.num_grants  <<= s.num_grants + 1

class C19ManyArbTop( Component ):
  # spec: list of (has_en, nreqs, with_mux, wrap); one arbiter per entry (inside C19GrantMonitor wrappers when wrap
  # is a non-empty list of register counts), own reqs/en/grants ports
  def construct( s, spec ):
    maxn = max( n for _, n, _, _ in spec )
    s.reqs   = [ InPort ( mk_bits( n ) ) for _, n, _, _ in spec ]
    s.en     = [ InPort () for _ in spec ]
    s.grants = [ OutPort( mk_bits( n ) ) for _, n, _, _ in spec ]
    s.data   = [ InPort ( Bits8 ) for _ in range( maxn ) ]
    s.out    = [ OutPort( Bits8 ) for _ in spec ]
    s.arbs   = [ C19GrantMonitor( h, n, w ) if w else ( RoundRobinArbiterEn if h else RoundRobinArbiter )( n )
                 for h, n, _, w in spec ]
    s.muxes  = [ C19GrantMux( n ) for _, n, x, _ in spec if x ]
    k = 0
    for j, ( h, n, x, w ) in enumerate( spec ):
      s.arbs[j].reqs   //= s.reqs[j]
      s.arbs[j].grants //= s.grants[j]
      if h or w: s.arbs[j].en //= s.en[j]
      if x:
        s.muxes[k].sel //= s.grants[j]
        for i in range( n ): s.muxes[k].in_[i] //= s.data[i]
        s.muxes[k].out //= s.out[j]
        k += 1
"""

FLOWS = ['default', 'simplesim', 'unroll', 'heutopo', 'mamba']
_top_mod = [None]

def top_module(workdir):
  if _top_mod[0] is None:
    import importlib, os, sys
    name = f'c19_manytop_{os.getpid()}'
    with open(os.path.join(workdir, name + '.py'), 'w') as f: f.write(TOP_SRC)
    if workdir not in sys.path: sys.path.insert(0, workdir)
    _top_mod[0] = importlib.import_module(name)
  return _top_mod[0]

def inner_arbiter(a):
  """the arbiter inside (possibly nested) C19GrantMonitor wrappers"""
  while not hasattr(a, 'priority_reg') and hasattr(a, 'arb'): a = a.arb
  return a

def build_top(workdir, spec, flow, alone=None):
  """the many-arbiter top for `spec`, or (alone = (has_en, n, wrap)) one C19GrantMonitor as the top itself"""
  from pymtl3.passes.PassGroups import SimpleSimPass
  from pymtl3.passes.mamba.PassGroups import HeuTopoUnrollSim, Mamba2020, UnrollSim
  if alone is not None: top = top_module(workdir).C19GrantMonitor(alone[0], alone[1], tuple(alone[2]))
  else: top = top_module(workdir).C19ManyArbTop([(h, n, x, tuple(w)) for h, n, x, w in spec])
  top.elaborate()
  if flow == 'default': top.apply(DefaultPassGroup())
  elif flow == 'simplesim': top.apply(SimpleSimPass())
  elif flow == 'unroll': top.apply(UnrollSim(print_line_trace=False))
  elif flow == 'heutopo': top.apply(HeuTopoUnrollSim(print_line_trace=False))
  elif flow == 'mamba': top.apply(Mamba2020(print_line_trace=False))
  else: raise ValueError(flow)
  return top

def rand_wrap(rng):
  """register counts of the wrapper levels around an arbiter, outermost first"""
  return [rng.choice([0, 1, 2, 2, 3]) for _ in range(rng.choice([1, 1, 2]))]

def gen_many(rng, quick):
  """spec + one global reset stream + independent (en, reqs) streams + data words"""
  k = rng.randint(7, 16) if rng.random() < 0.85 else rng.randint(2, 6)
  sizes = [2, 3, 4, 4, 5, 8] if quick else [2, 3, 4, 4, 5, 6, 8, 9, 16]
  spec = []
  for j in range(k):
    h = rng.randint(0, 1)
    n = 1 if (h in N1_OK and rng.random() < 0.15) else rng.choice(sizes)
    spec.append([h, n, int(rng.random() < 0.4), rand_wrap(rng) if (n > 1 and rng.random() < 0.45) else []])
  length = rng.randint(50, 80) if quick else rng.randint(80, 200)
  resets = [0] * length
  start = rng.choice([0, 0, 0, rng.randint(1, 4)])        # sometimes traffic before the first reset
  resets[start] = 1
  for _ in range(rng.randint(1, 3)):                      # reset pulses in the middle of the traffic
    t = rng.randint(length // 4, length - 5)
    for u in range(t, min(length, t + rng.randint(1, 2))): resets[u] = 1
  streams = []
  for h, n, _, _ in spec:
    hist = random_history(rng, h, n, length + 8)[-length:]
    streams.append([[c[1], c[2]] for c in hist])
  data = [[rng.getrandbits(8) for _ in range(max(n for _, n, _, _ in spec))] for _ in range(length)]
  return {'spec': spec, 'resets': resets, 'streams': streams, 'data': data}

def run_many_real(workdir, many, flow):
  """per arbiter: rows (prio, grants, priority_en, next); plus mux violations [(arb, cycle, text)]"""
  spec, resets, streams, data = many['spec'], many['resets'], many['streams'], many['data']
  top = build_top(workdir, spec, flow)
  rows = [[] for _ in spec]
  muxbad = []
  for t, r in enumerate(resets):
    top.reset @= r
    for i, d in enumerate(data[t]): top.data[i] @= d
    for j, (h, n, x, w) in enumerate(spec):
      top.reqs[j] @= streams[j][t][1]
      if h or w: top.en[j] @= streams[j][t][0]
    top.sim_eval_combinational()
    cur = []
    for j, (h, n, x, w) in enumerate(spec):
      a = inner_arbiter(top.arbs[j])
      g = int(top.grants[j])
      if hasattr(a, 'priority_reg'): cur.append([int(a.priority_reg.out), g, int(a.priority_en)])
      else: cur.append([1, g, int(g != 0 and (not h or streams[j][t][0]))])     # one requester, no register: pointer trivial
      if x:
        want = data[t][g.bit_length() - 1] if g and not g & (g - 1) and g.bit_length() <= n else 0
        if g and not g & (g - 1) and int(top.out[j]) != want:
          muxbad.append((j, t, f'mux out={int(top.out[j])} for grants={g:#b}, data={data[t][:n]}'))
    top.sim_tick()
    for j, (h, n, x, w) in enumerate(spec):
      a = inner_arbiter(top.arbs[j])
      cur[j].append(int(a.priority_reg.out) if hasattr(a, 'priority_reg') else 1)
      rows[j].append(cur[j])
  return rows, muxbad

def many_arbiters(ck, ntops):
  rng = ck.rng
  cycles = 0
  for _ in range(ntops):
    many = gen_many(rng, ck.tier == 'quick')
    spec = many['spec']
    hists = [[[r, e, q] for r, (e, q) in zip(many['resets'], st)] for st in many['streams']]
    s0 = [1 if (n == 1) else 0 for _, n, _, _ in spec]     # a register-less one-requester arbiter: pointer trivially at input 0
    replies = ck.drv('arb').batch([model_line(h, n, hist, s0=z) for (h, n, _, _), hist, z in zip(spec, hists, s0)])
    models = [parse_trace(r) for r in replies]
    ck.hist('many: arbiters per top', len(spec))
    for flow in FLOWS:
      rows, muxbad = run_many_real(ck.workdir, many, flow)
      for j, (h, n, x, w) in enumerate(spec):
        ck.hist('wrapper registers (outermost first)', str(w) if w else 'bare', len(hists[j]))
        ctx = {'flow': flow, 'index': j, 'spec': spec, 'resets': many['resets'], 'streams': many['streams'], 'data': many['data']}
        ck.hist('variant', VARIANT[h], len(hists[j])); ck.hist('nreqs', n, len(hists[j])); ck.hist('part', 'many:' + flow, len(hists[j]))
        model = models[j]
        if n == 1 and s0[j] == 1:
          # the register-less instance has no reset: compare grants only (model row with the pointer held at input 0)
          model = [[1, m[1], m[2] if not many['resets'][t] else rows[j][t][2], 1] for t, m in enumerate(model)]
        evaluate(ck, h, n, hists[j], model, rows[j], 'many:' + flow, ctx)
        cycles += len(hists[j])
      for j, t, text in muxbad[:3]:
        ck.disagreement('grant-driven mux in C19ManyArbTop (' + flow + ')',
                        {'hasEn': spec[j][0], 'n': spec[j][1], 'hist': hists[j][:t + 1],
                         'many': {'flow': flow, 'index': j, 'spec': spec, 'resets': many['resets'], 'streams': many['streams'], 'data': many['data']}},
                        'out = data[granted input]', text)
  return cycles

def run_wrapped_real(workdir, has_en, n, wrap, hist, flow):
  """one C19GrantMonitor (wrap = register counts per level) as the top of the design"""
  top = build_top(workdir, None, flow, alone=(has_en, n, wrap))
  a = inner_arbiter(top)
  out = []
  for r, e, q in hist:
    top.reset @= r
    top.reqs @= q
    top.en @= e
    top.sim_eval_combinational()
    row = [int(a.priority_reg.out), int(top.grants), int(a.priority_en)]
    top.sim_tick()
    row.append(int(a.priority_reg.out))
    out.append(row)
  return out

def wrapped_alone(ck, shapes, length):
  """arbiters inside GrantMonitor-style parents with 0-3 registers of their own, 1-2 levels, as the whole design"""
  rng = ck.rng
  cycles = 0
  for wrap in shapes:
    has_en = rng.randint(0, 1)
    n = rng.choice([2, 3, 4, 5, 8])
    hist = random_history(rng, has_en, n, length)
    model = parse_trace(ck.drv('arb').batch([model_line(has_en, n, hist)])[0])
    for flow in FLOWS:
      impl = run_wrapped_real(ck.workdir, has_en, n, wrap, hist, flow)
      ck.hist('variant', VARIANT[has_en], len(hist)); ck.hist('nreqs', n, len(hist)); ck.hist('part', 'wrapped:' + flow, len(hist))
      ck.hist('wrapper registers (outermost first)', str(wrap), len(hist))
      evaluate(ck, has_en, n, hist, model, impl, 'wrapped:' + flow, None, {'flow': flow, 'wrap': wrap})
      cycles += len(hist)
  return cycles

def exhaustive(ck, nmax, factory=make):
  situations = 0
  for has_en in (0, 1):
    # construction order within the process: small -> large for the plain arbiter, large -> small for the En variant
    for n in (range(2, nmax + 1) if not has_en else range(nmax, 1, -1)):
      segs = list(exhaustive_histories(has_en, n))
      replies = ck.drv('arb').batch([model_line(has_en, n, hist) for _, hist, _ in segs])
      comb_keys, comb_real = [], {}
      for (p, hist, tests), rep in zip(segs, replies):
        model = parse_trace(rep)
        impl = run_real(has_en, n, hist, wires=True, factory=factory)
        ck.hist('variant', VARIANT[has_en], len(hist)); ck.hist('nreqs', n, len(hist)); ck.hist('part', 'exhaustive', len(hist))
        evaluate(ck, has_en, n, hist, model, impl, 'exhaustive')
        for t in tests:
          row = impl[t]
          situations += 1
          if row[0] != 1 << p:
            # steering through the ports failed: the oracle has flagged the steering cycle already
            ck.hist('steering', 'missed')
          key = (n, hist[t][2], row[0])
          if key not in comb_real:
            comb_real[key] = row[1:2] + row[4:7]; comb_keys.append(key)
      # internal wires of the combinational network against the model's definitions
      reps = ck.drv('arb').batch([leanio.line('arb', 'comb', *k) for k in comb_keys])
      for k, rep in zip(comb_keys, reps):
        m = [int(x) for x in rep.split()]
        if m != comb_real[k]:
          ck.disagreement('Model/Arb wires (grants, priority_reg.in_, kills, grants_int)≈' + VARIANT[has_en],
                          {'hasEn': has_en, 'n': k[0], 'hist': [[1, 0, 0], steer(k[2].bit_length() - 1, k[0]), [0, 0, k[1]]]},
                          m, comb_real[k])
  return situations

def run(ck, factory=make):
  rng = ck.rng
  quick = ck.tier == 'quick'
  nmax = 6 if quick else 8
  degenerate(ck, factory, 'first')
  # the sizes built first in this process (per-class caches): nreqs = 1 if accepted, then a seed-dependent small size
  first = [(h, rng.randint(2, 5), None) for h in (0, 1)]
  process(ck, [(h, n, random_history(rng, h, n, 60)) for h, n, _ in first], 'random', factory)
  situations = exhaustive(ck, nmax, factory)
  degenerate(ck, factory, 'after larger sizes')
  shapes = [[0], [1], [2], [3], [0, 2], [2, 0], [1, 3]] if quick else [[a] for a in range(4)] + [[a, b] for a in range(4) for b in range(4)] + [[2, 0, 3], [0, 0, 2]]
  wc = wrapped_alone(ck, shapes, 40 if quick else 120)
  ck.extra_cov['wrapped_part'] = (f'arbiter inside C19GrantMonitor wrappers (register counts per level, outermost first) {shapes} as the whole '
                                  f'design, under {FLOWS}: {wc} cycles')
  ntops = 3 if quick else 12
  mc = many_arbiters(ck, ntops)
  ck.extra_cov['many_arbiters_part'] = (f'{ntops} generated tops (mostly 7-16 arbiters of both variants, mixed nreqs, some grants feeding a mux), '
                                        f'independent req/en streams, shared reset with pulses in mid-traffic, each simulated under '
                                        f'{FLOWS}: {mc} arbiter-cycles, every arbiter against the model and the direct oracle')
  ck.extra_cov['exhaustive_part'] = (f'both variants, nreqs 2..{nmax}: every pointer position x request vector x en x reset, '
                                     f'pointer steered through the ports: {situations} test cycles; internal wires kills/'
                                     f'grants_int/priority_reg.in_ compared for every (nreqs, reqs, pointer)')
  # random histories
  plan = []
  if quick:
    for n in (2, 3, 4, 5, 6, 7, 8): plan += [(n, 24, 200)]
    plan += [(13, 5, 160), (16, 5, 160)]
  else:
    for n in (2, 3, 4, 5, 6, 7, 8): plan += [(n, 220, 300)]
    plan += [(9, 30, 300), (12, 30, 300), (16, 30, 300), (17, 16, 300), (32, 16, 300), (33, 10, 300), (64, 6, 400)]
  items = []
  for n, k, length in plan:
    for has_en in (0, 1):
      for _ in range(k):
        items.append((has_en, n, random_history(rng, has_en, n, rng.randint(40, length))))
  rng.shuffle(items)          # sizes and variants interleaved and repeated (fresh component per history)
  for i in range(0, len(items), 64):
    process(ck, items[i:i + 64], 'random', factory)
    if len(ck.violations) > 20: break
  ck.extra_cov['random_part'] = f'{len(items)} histories, {sum(len(h) for _, _, h in items)} cycles, nreqs in {sorted({n for n, _, _ in plan})}'

def replay(ck, data):
  c = data['case']
  has_en, n, hist = c['hasEn'], c['n'], c['hist']
  for h in (0, 1):               # same construction prelude as run(): a one-requester instance of each class first
    try: make(h, 1)
    except Exception as e: print(f'{VARIANT[h]}(1): rejected ({type(e).__name__})')
    else: print(f'{VARIANT[h]}(1): built')
  model = parse_trace(ck.drv('arb').batch([model_line(has_en, n, hist)])[0])
  many = c.get('many')
  if many:
    # the arbiter sits in a generated top with other arbiters: rebuild the whole top under the same pass group
    rows, _ = run_many_real(ck.workdir, many, many['flow'])
    impl = rows[many['index']][:len(hist)]
    print(f"arbiter #{many['index']} of a top with {len(many['spec'])} arbiters (spec [hasEn, nreqs, mux, wrapper registers]: {many['spec']}), pass group {many['flow']}")
  elif c.get('wrapped'):
    w = c['wrapped']
    impl = run_wrapped_real(ck.workdir, has_en, n, w['wrap'], hist, w['flow'])
    print(f"arbiter inside C19GrantMonitor wrappers with {w['wrap']} own registers per level (outermost first), pass group {w['flow']}")
  else:
    impl = run_real(has_en, n, hist)
  orc = Oracle(has_en, n)
  status = 0
  print(f'{VARIANT[has_en]}({n}), {len(hist)} cycles; columns: cycle [reset en reqs] impl(prio grants priority_en next) model(...)')
  for t, ((r, e, q), row) in enumerate(zip(hist, impl)):
    bad = orc.cycle(r, e, q, *row[:4])
    flag = '' if model[t] == row[:4] else '   <-- model differs'
    print(f'{t:4} [{r} {e} {q:#b}] impl={row[:4]} model={model[t]}{flag}')
    for kind, text in bad:
      print(f'       ORACLE {kind}: {text}')
      status = 1
  return status
