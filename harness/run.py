"""Entry point: python -m harness.run <Cxx> <quick|thorough> [--replay file]"""
import importlib, os, sys

def main(argv):
  if len(argv) < 2:
    print('usage: vcheck <Cxx> <quick|thorough> [--replay <file>]', file=sys.stderr); return 2
  pid = argv[0].upper()
  tier = argv[1] if argv[1] in ('quick', 'thorough') else os.environ.get('VERIF_TIER', 'quick')
  replay = None
  if '--replay' in argv:
    replay = argv[argv.index('--replay') + 1]
  try:
    seed = int(os.environ.get('VERIF_SEED', '0'))
  except ValueError:
    seed = 0
  from harness.common.check import run_check
  mod = importlib.import_module(f'harness.checks.{pid.lower()}')
  return run_check(mod, tier, seed, replay)

if __name__ == '__main__':
  sys.exit(main(sys.argv[1:]))
