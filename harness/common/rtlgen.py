"""Random RTL designs shared by C01, C02, C07 and C11.

A design is generated once as an intermediate form and rendered twice:
  * as PyMTL source (real `Component` classes, written to a module file so inspect.getsource works);
  * as the S-expression `Model/Rtl.lean` understands (signals = bit vectors, blocks = assignment lists,
    nets = blocks `reader @= writer`, if/else = mux).
The generator knows which member drives each net because it creates the connections itself.
"""
import importlib.util, itertools, os, re, sys

from . import leanio

CMP = ('eq', 'ne', 'lt', 'le', 'gt', 'ge')
PYOP = {'add': '+', 'sub': '-', 'mul': '*', 'and': '&', 'or': '|', 'xor': '^', 'shl': '<<', 'shr': '>>',
        'eq': '==', 'ne': '!=', 'lt': '<', 'le': '<=', 'gt': '>', 'ge': '>='}
_uid = itertools.count()

class StructT:
  """a bitstruct type: fields = [(name, width:int | StructT | ('L', dims, w))]; layout: first field most significant; a list field
  `f: [[BitsW]*d1]*d0` is laid out row-major with element [0]..[0] least significant within the field"""
  def __init__(self, name, fields):
    self.name, self.fields = name, fields
    self.width = sum(self.fwidth(f[1]) for f in fields)
  @staticmethod
  def fwidth(ft):
    if isinstance(ft, int): return ft
    if isinstance(ft, tuple):
      n = 1
      for k in ft[1]: n *= k
      return n * ft[2]
    return ft.width
  def named(self, prefix='', base=None):
    """all named sub-ranges [(path, lo, w, is_leaf)], whole struct excluded (a list field contributes its elements only: the
    list itself is a Python list, not a value)"""
    out = []
    hi = self.width if base is None else base
    for fname, ft in self.fields:
      w = self.fwidth(ft)
      lo = hi - w
      if isinstance(ft, tuple):
        _, dims, ew = ft
        idxs = [()]
        for k in dims: idxs = [i + (j,) for i in idxs for j in range(k)]
        for e, ix in enumerate(idxs):
          out.append((prefix + fname + ''.join(f'[{j}]' for j in ix), lo + e * ew, ew, True))
      else:
        out.append((prefix + fname, lo, w, isinstance(ft, int)))
        if not isinstance(ft, int): out += ft.named(prefix + fname + '.', hi)
      hi = lo
    return out
  def leaves(self):
    return [(p, lo, w) for (p, lo, w, leaf) in self.named() if leaf]
  def all_types(self):
    out = []
    for _, ft in self.fields:
      if not isinstance(ft, (int, tuple)):
        for t in ft.all_types():
          if t not in out: out.append(t)
    out.append(self)
    return out
  def py_source(self):
    lines = ['@bitstruct', f'class {self.name}:']
    for fname, ft in self.fields:
      if isinstance(ft, tuple):
        t = f'Bits{ft[2]}'
        for k in reversed(ft[1]): t = f'[{t}]*{k}'
        lines.append(f'  {fname}: {t}')
      else:
        lines.append(f'  {fname}: ' + (f'Bits{ft}' if isinstance(ft, int) else ft.name))
    return lines

class Sig:
  def __init__(self, idx, comp, name, width, kind, stype=None):
    self.idx, self.comp, self.name, self.width, self.kind, self.stype = idx, comp, name, width, kind, stype
  @property
  def path(self):
    return (self.comp + '.' if self.comp else '') + self.name

class Design:
  def __init__(self, rng, uid):
    self.rng = rng
    self.uid = uid
    self.sigs = []
    self.comps = {'': {'children': []}}      # comp name -> info
    self.blocks = []                          # dict(id, name, comp, kind, asgs, style)
    self.nets = {}                            # writer key (sig, lo, w) -> dict(id, writer, readers[])
    self.net_root = {}                        # reader range -> writer range (exact-object chaining)
    self.conns = []                           # emitted connect statements (reader rng, writer rng), in order
    self.driven = []                          # ranges already driven by comb blocks / nets
    self.avail = []                           # ranges whose value is defined when later blocks run
    self.regs = []                            # signal indices written by ff blocks
    self.next_id = 0
    self.explicit = []                        # (block id a, block id b): U(a) < U(b), same component
    self.full_struct = set()                  # struct-typed signals whose whole value is available
    self.allow_helpers = False                # set while an expression of a top-level block is being generated
    self.vi = {}                              # id(mux chain) -> (chain, python text): reads of a list element chosen by a signal
    self.helpers = []                         # [(name, expr)]: @s.func helpers of the top component (pure: `return <expr>`)
    self.fn_call = {}                         # id(expr) -> (expr, helper name): this occurrence is rendered as a call

  # ------------------------------------------------------------------ construction helpers
  def new_sig(self, comp, name, width, kind, stype=None):
    if stype is not None: width = stype.width
    s = Sig(len(self.sigs), comp, name, width, kind, stype)
    self.sigs.append(s)
    return s

  def leaf_bounds(self, s):
    """boundaries inside which an arithmetic range of signal s must stay"""
    if s.stype is None: return [(0, s.width)]
    return [(lo, lo + w) for (_, lo, w) in s.stype.leaves()]

  def new_id(self):
    self.next_id += 1
    return self.next_id - 1

  # hierarchy: component names are paths ('' = top, 'c0', 'c0.g0')
  @staticmethod
  def parent_of(comp):
    if comp == '': return None
    return comp.rsplit('.', 1)[0] if '.' in comp else ''

  def children_of(self, comp):
    return [c for c in self.comps if c != '' and self.parent_of(c) == comp]

  def can_read(self, comp, s):
    """a block (or connection) hosted in comp may read s: its own signals and its direct children's out ports"""
    return s.comp == comp or (s.comp != '' and self.parent_of(s.comp) == comp and s.kind == 'out')

  def can_write(self, comp, s):
    """... may drive s: its own wires / out ports and its direct children's in ports"""
    if s.name == 'reset': return False
    return (s.comp == comp and s.kind in ('wire', 'out')) or (s.comp != '' and self.parent_of(s.comp) == comp and s.kind == 'in')

  def free_ranges(self, comp_filter):
    """undriven (sig, lo, w) pieces of signals writable from a component"""
    out = []
    for s in self.sigs:
      if not comp_filter(s): continue
      if s.idx in self.regs: continue
      taken = sorted((lo, lo + w) for (g, lo, w) in self.driven if g == s.idx)
      pos = 0
      pieces = []
      for lo, hi in taken + [(s.width, s.width)]:
        if lo > pos: pieces.append((pos, lo))
        pos = max(pos, hi)
      for (a, b) in pieces:
        for (l, h) in self.leaf_bounds(s):
          x, y = max(a, l), min(b, h)
          if x < y: out.append((s.idx, x, y - x))
    return out

  # ------------------------------------------------------------------ expressions
  def gen_var_index(self, w, readable):
    """`s.wl[s.sel]`, `s.wl[s.sel].f`, `s.wl[s.sel][a:b]`: an element of a list of signals selected by a 1- or 2-bit signal.
    Model side: a mux chain over the elements.  Only lists all of whose elements are completely available are used (the
    implementation records a read of every element), and only whole signals / struct fields as index (an attribute)."""
    rng = self.rng
    lists = {}
    for sg in self.sigs:
      mm = re.match(r'(\w+)\[(\d+)\]$', sg.name)
      if mm and sg.comp == '': lists.setdefault(mm.group(1), []).append(sg)
    whole = lambda sg: all((sg.idx, l, h - l) in self.avail for (l, h) in self.leaf_bounds(sg))
    lists = {b: sorted(v, key=lambda x: int(re.search(r'\[(\d+)\]$', x.name).group(1))) for b, v in lists.items()}
    lists = {b: v for b, v in lists.items() if len(v) >= 2 and all(whole(x) for x in v) and all(x in [self.sigs[r[0]] for r in readable] for x in v)}
    if not lists: return None
    base = rng.choice(sorted(lists))
    elems = lists[base]
    # piece of an element: a leaf field (or the whole Bits signal), possibly narrowed to w bits
    e0 = elems[0]
    pieces = [(l, h - l) for (l, h) in self.leaf_bounds(e0) if h - l >= w]
    if not pieces: return None
    lo, ww = rng.choice(pieces)
    off = rng.choice([0, ww - w, rng.randint(0, ww - w)])
    rngk = (lo + off, w)
    # index: a whole 1-bit (or, for >= 4 elements, 2-bit) signal or struct leaf field that is readable
    # the implementation records a read of EVERY element for a signal-valued index; keep the model's reads identical by
    # using only index widths that reach every element (2 elements / 1 bit, 4 elements / 2 bits)
    if len(elems) not in (2, 4): return None
    nb = 1 if len(elems) == 2 else 2
    sels = []
    for (g, l, x) in readable:
      sg = self.sigs[g]
      if x != nb or sg in elems or sg.name == 'reset': continue
      if (l, l + x) in self.leaf_bounds(sg): sels.append((g, l, x))
    if not sels: return None
    sel = rng.choice(sels)
    n = min(len(elems), 1 << nb)
    chain = ('r', elems[n - 1].idx) + rngk
    for k in range(n - 2, -1, -1):
      chain = ('m', ('b', 'eq', nb, ('r',) + sel, ('c', nb, k)), ('r', elems[k].idx) + rngk, chain)
    txt = self.ref('', (e0.idx,) + rngk).replace(f's.{base}[0]', f's.{base}[{self.ref("", sel)}]', 1)
    self.vi[id(chain)] = (chain, txt)
    return chain

  def gen_var_slice(self, w, readable):
    """`s.x[ zext(s.sel, 8) : zext(s.sel, 8) + w ]`: a part select whose bounds are read from a signal.  Model side: a mux
    chain over the values of the index.  The implementation records a read of the whole of `x`, so only signals whose whole
    value is already available are used."""
    rng = self.rng
    nb = rng.choice([1, 1, 2])
    K = (1 << nb) - 1
    rset = set(readable)
    # the implementation records a read of the WHOLE of x: use only signals the chain covers completely (width = w + K), so
    # that the model's reads are the implementation's reads
    xs = [sg for sg in self.sigs if sg.comp == '' and sg.stype is None and sg.name != 'reset' and sg.width == w + K
          and (sg.idx, 0, sg.width) in rset and not re.search(r'\[\d+\]$', sg.name)]
    sels = [(g, l, x) for (g, l, x) in readable if x == nb and (l, l + x) in self.leaf_bounds(self.sigs[g]) and self.sigs[g].name != 'reset']
    if not xs or not sels: return None
    x = rng.choice(xs); sel = rng.choice(sels)
    if sel[0] == x.idx: return None
    chain = ('r', x.idx, K, w)
    for k in range(K - 1, -1, -1):
      chain = ('m', ('b', 'eq', nb, ('r',) + sel, ('c', nb, k)), ('r', x.idx, k, w), chain)
    st = self.ref('', sel)
    self.vi[id(chain)] = (chain, f's.{x.name}[ zext( {st}, 8 ) : zext( {st}, 8 ) + {w} ]')
    return chain

  def gen_helper_call(self, w, readable):
    """part of an expression computed by an `@s.func` helper of the top component; helpers are shared between blocks (the
    reads of a helper belong to EVERY block that calls it).  Model side: the expression is inlined."""
    rng = self.rng
    rset = set(readable)
    covered = lambda r: any(g == r[0] and lo <= r[1] and r[1] + r[2] <= lo + ww for (g, lo, ww) in rset)
    usable = [(nm, e, ew) for (nm, e, ew) in self.helpers if ew == w and all(covered(r) for r in expr_reads(e, []))]
    if usable and rng.random() < 0.7:
      nm, e, _ = rng.choice(usable)
      e = (e[0],) + e[1:]                            # a fresh tuple object: one call site
    else:
      if len(self.helpers) >= 4: return None
      e = self.gen_expr(w, readable, rng.randint(0, 1))
      if id(e) in self.vi or id(e) in self.fn_call or e[0] == 'c': return None
      nm = f'hf{len(self.helpers)}'
      self.helpers.append((nm, e, w))
      e = (e[0],) + e[1:]
    self.fn_call[id(e)] = (e, nm)
    return e

  def gen_leaf(self, w, readable):
    rng = self.rng
    if self.allow_helpers and rng.random() < 0.12:
      e = self.gen_helper_call(w, readable)
      if e is not None: return e
    if rng.random() < 0.2:
      e = self.gen_var_index(w, readable)
      if e is not None: return e
    if self.allow_helpers and rng.random() < 0.2:      # top-level blocks only (the text is rendered from the top)
      e = self.gen_var_slice(w, readable)
      if e is not None: return e
    cands = [r for r in readable if r[2] >= w]
    if cands and rng.random() < 0.8:
      g, lo, ww = rng.choice(cands)
      off = rng.randint(0, ww - w)
      if rng.random() < 0.5: off = 0 if rng.random() < 0.5 else ww - w
      return ('r', g, lo + off, w)
    v = rng.choice([0, 1, (1 << w) - 1, rng.getrandbits(w)])
    return ('c', w, v)

  def gen_expr(self, w, readable, depth):
    rng = self.rng
    if depth <= 0 or rng.random() < 0.3: return self.gen_leaf(w, readable)
    k = rng.random()
    if k < 0.45:
      op = rng.choice(['add', 'sub', 'and', 'or', 'xor', 'add', 'xor', 'mul', 'shl', 'shr'])
      return ('b', op, w, self.gen_expr(w, readable, depth - 1), self.gen_expr(w, readable, depth - 1))
    if k < 0.55: return ('n', w, self.gen_expr(w, readable, depth - 1))
    if k < 0.7 and w == 1:
      ww = rng.choice([1, 2, 4, 8])
      return ('b', rng.choice(CMP), ww, self.gen_expr(ww, readable, depth - 1), self.gen_expr(ww, readable, depth - 1))
    if k < 0.82:
      c = self.gen_expr(1, readable, depth - 1)
      return ('m', c, self.gen_expr(w, readable, depth - 1), self.gen_expr(w, readable, depth - 1))
    if k < 0.92 and w >= 2:
      wb = rng.randint(1, w - 1)
      return ('cat', self.gen_expr(w - wb, readable, depth - 1), wb, self.gen_expr(wb, readable, depth - 1))
    return self.gen_leaf(w, readable)

  def readable_from(self, comp):
    """available ranges a block hosted in `comp` may read: its own signals and its children's out ports"""
    out = []
    for (g, lo, w) in self.avail:
      if self.can_read(comp, self.sigs[g]): out.append((g, lo, w))
    # coalesce adjacent available pieces of one signal (inside one leaf field) so that a read may span several
    # separately written slices, or strictly contain one of them
    merged = []
    bysig = {}
    for (g, lo, w) in out: bysig.setdefault(g, []).append((lo, lo + w))
    for g, ivs in bysig.items():
      for (l, h) in self.leaf_bounds(self.sigs[g]):
        cur = None
        for (a, b) in sorted((max(a, l), min(b, h)) for (a, b) in ivs if max(a, l) < min(b, h)):
          if cur is not None and a <= cur[1]: cur = (cur[0], max(cur[1], b))
          else:
            if cur is not None: merged.append((g, cur[0], cur[1] - cur[0]))
            cur = (a, b)
        if cur is not None: merged.append((g, cur[0], cur[1] - cur[0]))
    return out + [m for m in merged if m not in out]

  # ------------------------------------------------------------------ rendering: model
  def model_blocks(self):
    comb, ff = [], []
    for b in self.blocks:
      entry = ('blk', b['id']) + tuple(('asg', t[0], t[1], t[2], e) for (t, e) in b['asgs'])
      (ff if b['kind'] == 'ff' else comb).append(entry)
    for key, n in self.nets.items():
      comb.append(('blk', n['id']) + tuple(('asg', r[0], r[1], r[2], ('r',) + tuple(n['writer'])) for r in n['readers']))
    return comb, ff

  def sexp(self):
    comb, ff = self.model_blocks()
    return ('design', ('widths',) + tuple(s.width for s in self.sigs), ('comb',) + tuple(comb), ('ff',) + tuple(ff))

  def comb_ids(self):
    return [b['id'] for b in self.blocks if b['kind'] != 'ff'] + [n['id'] for n in self.nets.values()]

  def ff_ids(self):
    return [b['id'] for b in self.blocks if b['kind'] == 'ff']

  # ------------------------------------------------------------------ rendering: PyMTL
  def ref(self, comp, r):
    """python expression for range r seen from component comp"""
    g, lo, w = r
    s = self.sigs[g]
    if s.comp == comp: base = 's.' + s.name
    else:
      rel = s.comp[len(comp) + 1:] if comp else s.comp      # the signal lives in a descendant of comp
      base = f's.{rel}.{s.name}'
    if lo == 0 and w == s.width: return base
    if s.stype is not None:
      named = s.stype.named()
      for (p, l, ww, leaf) in named:
        if leaf and (l, ww) == (lo, w): return f'{base}.{p}'
      for (p, l, ww, leaf) in named:
        if leaf and l <= lo and lo + w <= l + ww: return f'{base}.{p}[{lo - l}:{lo - l + w}]'
      for (p, l, ww, leaf) in named:
        if (l, ww) == (lo, w): return f'{base}.{p}'
      raise ValueError(f'range {r} of struct signal {s.path} crosses a field boundary')
    return f'{base}[{lo}:{lo + w}]'

  def py_expr(self, comp, e):
    k = e[0]
    if id(e) in self.vi and self.vi[id(e)][0] is e and comp == '': return self.vi[id(e)][1]
    if id(e) in self.fn_call and self.fn_call[id(e)][0] is e and comp == '': return f'{self.fn_call[id(e)][1]}()'
    if k == 'c': return f'Bits{e[1]}({e[2]})'
    if k == 'r': return self.ref(comp, e[1:])
    if k == 'n': return f'(~{self.py_expr(comp, e[2])})'
    if k == 'b': return f'({self.py_expr(comp, e[3])} {PYOP[e[1]]} {self.py_expr(comp, e[4])})'
    if k == 'm': return f'({self.py_expr(comp, e[2])} if {self.py_expr(comp, e[1])} else {self.py_expr(comp, e[3])})'
    if k == 'cat': return f'concat({self.py_expr(comp, e[1])}, {self.py_expr(comp, e[3])})'
    raise ValueError(e)

  def py_block(self, b):
    comp = b['comp']
    op = '<<=' if b['kind'] == 'ff' else '@='
    lines = [f"    @{'update_ff' if b['kind'] == 'ff' else 'update'}", f"    def {b['name']}():"]
    if b.get('body'):          # a block whose Python text is not the assignment list spelled out (variable-index writes)
      return lines + ['      ' + ln for ln in b['body']]
    if b.get('lam') is not None:
      (t, e) = b['asgs'][0]
      tgt = self.ref(comp, t)
      return ['    if pv_variant == 0:', f'      {tgt} //= lambda: {self.py_expr(comp, b["lam"])}',
              '    else:', f'      {tgt} //= lambda: {self.py_expr(comp, e)}']
    for i, (t, e) in enumerate(b['asgs']):
      tgt = self.ref(comp, t)
      st = b.get('styles', {}).get(i)
      if st == 'ifelse' and e[0] == 'm':
        lines += [f'      if {self.py_expr(comp, e[1])}:', f'        {tgt} {op} {self.py_expr(comp, e[2])}',
                  '      else:', f'        {tgt} {op} {self.py_expr(comp, e[3])}']
      elif st == 'hold' and e[0] == 'm':          # ff only: if c: r <<= e   (else holds)
        lines += [f'      if {self.py_expr(comp, e[1])}:', f'        {tgt} {op} {self.py_expr(comp, e[2])}']
      elif st == 'override' and e[0] == 'm':      # ff only: second assignment wins when c
        lines += [f'      if {self.py_expr(comp, e[1])}:', f'        {tgt} {op} {self.py_expr(comp, e[2])}']
      else:
        # now and then the same statement inside a (one-trip) for loop or in the else clause of one: Python runs it exactly
        # once either way; what pymtl3 reads off the AST (reads, writes, calls) must not depend on where a statement sits
        k = (self.uid * 7919 + b['id'] * 31 + i) % 14
        stmt = f'{tgt} {op} {self.py_expr(comp, e)}'
        if k == 0: lines += [f'      for _k{i} in range(1):', '        pass', '      else:', f'        {stmt}']
        elif k == 1: lines += [f'      for _k{i} in range(1):', f'        {stmt}']
        else: lines.append(f'      {stmt}')
    return lines

  def source(self):
    """the module text of the design.  With `self.base` (another, smaller design) the top class is declared as a SUBCLASS of
    the base design's top class with a construct() of its own; update blocks of the two classes share names (blk_0, blk_1,
    ...) but not sources, and one instance of the base class is elaborated when the module is imported — whatever pymtl3
    caches per class must not leak from the parent class into the subclass."""
    base = getattr(self, 'base', None)
    if base is None: return self._source()
    own = self._source(parent=base.cls_name('')).split('\n')
    return '\n'.join(base._source().split('\n') + [''] + own[1:] +
                     ['', f'_pv_base = {base.cls_name("")}()', '_pv_base.elaborate()', ''])

  def _source(self, parent='Component'):
    out = ['from pymtl3 import *', '']
    types = []
    for sg in self.sigs:
      if sg.stype is not None:
        for t in sg.stype.all_types():
          if t not in types: types.append(t)
    for t in types: out += t.py_source() + ['']
    order = sorted([c for c in self.comps], key=lambda c: (-c.count('.') - (1 if c else 0), c))
    for comp in order:
      cls = self.cls_name(comp)
      has_lam = comp == '' and any(b.get('lam') is not None for b in self.blocks)
      out += [f"class {cls}( {parent if comp == '' else 'Component'} ):", '  def construct( s, pv_variant=1 ):' if has_lam else '  def construct( s ):']
      lists_done = set()
      for s in self.sigs:
        if s.comp != comp or s.name in ('reset', 'clk'): continue
        ctor = {'in': 'InPort', 'out': 'OutPort', 'wire': 'Wire'}[s.kind]
        ty = s.stype.name if s.stype is not None else "Bits" + str(s.width)
        m = re.match(r'(\w+)\[(\d+)\]$', s.name)
        if m:
          base = m.group(1)
          if base in lists_done: continue
          lists_done.add(base)
          n = len([x for x in self.sigs if x.comp == comp and re.match(re.escape(base) + r'\[\d+\]$', x.name)])
          out.append(f'    s.{base} = [ {ctor}( {ty} ) for _ in range({n}) ]')
        else:
          out.append(f'    s.{s.name} = {ctor}( {ty} )')
      for ch in self.children_of(comp):
        out.append(f'    s.{ch.rsplit(".", 1)[-1]} = {self.cls_name(ch)}()')
      for (rd, wr, flipped, style, host) in self.conns:
        if host != comp: continue
        a, b = self.ref(comp, rd), self.ref(comp, wr)
        ra, rb = rd, wr
        if flipped: a, b, ra, rb = b, a, rb, ra
        whole = (ra[1] == 0 and ra[2] == self.sigs[ra[0]].width)     # `x.f //= y` / `x[a:b] //= y` are not valid Python for signals
        out.append(f'    {a} //= {b}' if (style == 0 and whole) else f'    connect( {a}, {b} )')
      if comp == '':
        for (nm, e, _) in self.helpers:
          out += ['    @s.func', f'    def {nm}():', f'      return {self.py_expr(comp, e)}']
      for b in self.blocks:
        if b['comp'] == comp: out += self.py_block(b)
      byid = {b['id']: b for b in self.blocks}
      for (a, b) in self.explicit:
        if byid[a]['comp'] == comp:
          out.append(f"    s.add_constraints( U({byid[a]['name']}) < U({byid[b]['name']}) )")
      out.append('    pass')
      out.append('')
    if any(b.get('lam') is not None for b in self.blocks):
      out += [f'_pv_v0 = {self.cls_name("")}( 0 )', '_pv_v0.elaborate()', '']
    return '\n'.join(out)

  def cls_name(self, comp):
    return f'Gen{self.uid}_{comp.replace(".", "_") or "Top"}'

def generate(rng, max_blocks=8, with_children=True, with_regs=True, wide=False, max_regs=3, min_regs=0, structs=None, many_wires=False, allow_base=True, closed=False):
  """an acyclic, single-writer design"""
  d = Design(rng, next(_uid))
  if allow_base and not closed and rng.random() < 0.2:
    d.base = generate(rng, max_blocks=4, with_children=False, max_regs=2, allow_base=False)
  W = lambda: rng.choice([1, 2, 3, 4, 4, 8, 8, 8, 12, 16] + ([32, 64] if wide else []))
  top_reset = d.new_sig('', 'reset', 1, 'in')
  if structs is None: structs = rng.random() < 0.5
  stypes = []
  if structs:
    inner = StructT(f'SI{d.uid}', [(f'p{i}', rng.choice([1, 2, 4, 4, 8])) for i in range(rng.randint(1, 2))])
    flat = StructT(f'SF{d.uid}', [(f'f{i}', rng.choice([1, 2, 4, 8, 8])) for i in range(rng.randint(2, 3))])
    nest = StructT(f'SN{d.uid}', [('a', rng.choice([2, 4])), ('inner', inner), ('z', rng.choice([1, 4, 8]))])
    stypes = [flat, nest] if rng.random() < 0.6 else [rng.choice([flat, nest])]
    if rng.random() < 0.3:
      # a list field, mostly not square: the generated <<= / _flip / @= of a bitstruct enumerate its elements
      dims = rng.choice([(2, 3), (3, 2), (2,), (3,), (2, 2), (1, 3), (2, 1, 2)])
      lf = [('t', rng.choice([1, 2, 4])), ('e', ('L', dims, rng.choice([1, 2, 4, 8])))]
      if rng.random() < 0.5: lf.append(('u', rng.choice([1, 4])))
      if rng.random() < 0.3: lf.reverse()
      stypes.append(StructT(f'SL{d.uid}', lf))
  ST = lambda: (rng.choice(stypes) if stypes and rng.random() < 0.4 else None)
  # names with prefix relations on purpose (w1 / w10 / w1x, out / out_q): code that compares reprs by prefix must not confuse them
  def names(base, k):
    pool = [f'{base}{i}' for i in range(k)]
    if rng.random() < 0.5:
      alt = [f'{base}1', f'{base}10', f'{base}1x', f'{base}x', f'{base}_q', f'{base}11']
      rng.shuffle(alt); pool = alt[:k]
    return pool
  n_in = 0 if closed else rng.randint(1, 3)     # closed: no input port besides clk / reset (a free-running design)
  for nm in names('in', n_in): d.new_sig('', nm, W(), 'in', ST())
  for nm in names('out', rng.randint(1, 3)): d.new_sig('', nm, W(), 'out', ST())
  for nm in names('w', rng.randint(1, 4)): d.new_sig('', nm, W(), 'wire', ST())
  if many_wires:
    for i in range(rng.randint(8, 12)): d.new_sig('', f'r{i}', W(), 'wire')
  if rng.random() < 0.4:      # a list of wires / out ports: s.wl = [Wire(..) for _ in range(k)]
    lw, lst, kind = W(), ST(), rng.choice(['wire', 'wire', 'out'])
    for i in range(rng.choice([2, 3, 3, 4])): d.new_sig('', f'{"wl" if kind == "wire" else "ol"}[{i}]', lw, kind, lst)
  if not closed and rng.random() < 0.45:     # a list of in ports and a narrow index port: s.il[s.isel], s.il[s.isel].f, s.il[s.isel][a:b]
    lw, lst, k = W(), ST(), rng.choice([2, 3, 4, 4])
    for i in range(k): d.new_sig('', f'il[{i}]', lw, 'in', lst)
    d.new_sig('', 'isel', 2 if (k == 4 and rng.random() < 0.6) else 1, 'in')
  children = []
  if with_children and rng.random() < 0.6:
    for c in range(rng.randint(1, 2)):
      cn = f'c{c}'
      children.append(cn)
      d.comps[cn] = {}
      d.comps['']['children'].append(cn)
      d.new_sig(cn, 'reset', 1, 'in')
      for i in range(rng.randint(1, 2)): d.new_sig(cn, f'in{i}', W(), 'in', ST())
      for i in range(rng.randint(1, 2)): d.new_sig(cn, f'out{i}', W(), 'out', ST())
      for i in range(rng.randint(0, 2)): d.new_sig(cn, f'w{i}', W(), 'wire', ST())
      if rng.random() < 0.35:     # a grandchild: nets and blocks then cross two hierarchy levels
        gn = f'{cn}.g0'
        children.append(gn)
        d.comps[gn] = {}
        d.new_sig(gn, 'reset', 1, 'in')
        for i in range(rng.randint(1, 2)): d.new_sig(gn, f'in{i}', W(), 'in', ST())
        for i in range(rng.randint(1, 2)): d.new_sig(gn, f'out{i}', W(), 'out', ST())
        if rng.random() < 0.5: d.new_sig(gn, 'w0', W(), 'wire', ST())
  # inputs are available; the reset of every component is in one net driven by the top reset (implicit in PyMTL)
  for s in d.sigs:
    if s.comp == '' and s.kind == 'in': mark_available(d, s)
  for cn in children:
    r = next(s for s in d.sigs if s.comp == cn and s.name == 'reset')
    pr = next(s for s in d.sigs if s.comp == d.parent_of(cn) and s.name == 'reset')
    add_net(d, (r.idx, 0, 1), (pr.idx, 0, 1), implicit=True)
  # registers: some wires / outs of any component are written by ff blocks
  if with_regs:
    cands = [s for s in d.sigs if s.kind in ('wire', 'out')]
    rng.shuffle(cands)
    for s in cands[:rng.randint(min(min_regs, len(cands)), min(max_regs, len(cands)))]:
      d.regs.append(s.idx)
      mark_available(d, s)
    # an in port of a child driven by an update_ff block of its parent (the one legal cross-hierarchy sequential write)
    for s in d.sigs:
      if s.kind == 'in' and s.comp != '' and s.name != 'reset' and s.stype is None and rng.random() < 0.2:
        d.regs.append(s.idx)
        mark_available(d, s)
  # comb blocks and nets in creation order
  pending_children = list(children)
  nblocks = rng.randint(2, max_blocks)
  for _ in range(nblocks * 2):
    if len([b for b in d.blocks if b['kind'] == 'comb']) + len(d.nets) >= nblocks + len(children): break
    choice = rng.random()
    comp = ''
    if children and rng.random() < 0.4: comp = rng.choice(children)
    if stypes and rng.random() < 0.25:
      make_struct_copy(d, comp)
    elif choice < 0.3 and (comp == '' or d.children_of(comp)):
      make_net(d, comp)
    else:
      make_comb(d, comp)
  # ff blocks (may read anything readable from their host, including signals driven "later")
  by_comp = {}
  for g in d.regs:
    sg = d.sigs[g]
    by_comp.setdefault(d.parent_of(sg.comp) if sg.kind == 'in' else sg.comp, []).append(g)
  for comp, regs in by_comp.items():
    rng.shuffle(regs)
    while regs:
      k = 1 if (rng.random() < 0.6 or many_wires) else rng.randint(1, min(2, len(regs)))
      mine, regs = regs[:k], regs[k:]
      make_ff(d, comp, mine)
  # one comb block of the top component may be written as `s.x //= lambda: expr`, selected by a constructor parameter
  # between two different lambdas; an instance with the OTHER lambda is elaborated first when the module is imported (what
  # pymtl3 caches per class and block name must follow the lambda actually attached)
  if rng.random() < 0.25:
    top_in = [(sg.idx, l, h - l) for sg in d.sigs if sg.comp == '' and sg.kind == 'in' for (l, h) in d.leaf_bounds(sg)]
    cands = [b for b in d.blocks if b['kind'] == 'comb' and b['comp'] == '' and not b.get('body') and len(b['asgs']) == 1
             and b['asgs'][0][0][1] == 0 and b['asgs'][0][0][2] == d.sigs[b['asgs'][0][0][0]].width
             and d.sigs[b['asgs'][0][0][0]].comp == '' and d.sigs[b['asgs'][0][0][0]].stype is None and not re.search(r'\[\d+\]$', d.sigs[b['asgs'][0][0][0]].name)
             and 's.' in d.py_expr('', b['asgs'][0][1])]      # pymtl3 takes `s` from the lambda's closure: the text must mention a signal
    wide_in = lambda w: [r for r in top_in if r[2] >= w]
    cands = [b for b in cands if wide_in(d.sigs[b['asgs'][0][0][0]].width)]
    if cands:
      b = rng.choice(cands)
      sg = d.sigs[b['asgs'][0][0][0]]
      d.allow_helpers = False
      g, lo, ww = rng.choice(wide_in(sg.width))
      alt = ('r', g, lo + rng.randint(0, ww - sg.width), sg.width)
      if rng.random() < 0.6: alt = ('b', rng.choice(['xor', 'and', 'add']), sg.width, alt, d.gen_expr(sg.width, top_in, 1))
      b['lam'] = alt
      b['name'] = '_lambda__s_' + sg.name
      b['styles'] = {}
  return d

def mark_available(d, s):
  """the whole value of signal s is defined from now on"""
  for (l, h) in d.leaf_bounds(s): d.avail.append((s.idx, l, h - l))
  if s.stype is not None: d.full_struct.add(s.idx)

def make_struct_copy(d, comp):
  """y @= x (block) or y //= x (net, top only) between two signals of the same struct type"""
  rng = d.rng
  ok = lambda s: d.can_write(comp, s)
  drv = {g for (g, _, _) in d.driven}
  ys = [s for s in d.sigs if s.stype is not None and ok(s) and s.idx not in drv and s.idx not in d.regs]
  rng.shuffle(ys)
  for y in ys:
    xs = [d.sigs[g] for g in d.full_struct if d.sigs[g].stype is y.stype and g != y.idx and d.can_read(comp, d.sigs[g])]
    if not xs: continue
    x = rng.choice(xs)
    t, src = (y.idx, 0, y.width), (x.idx, 0, x.width)
    if rng.random() < 0.5:
      add_net(d, t, src, flipped=rng.random() < 0.5, style=rng.randint(0, 1), host=comp)
      d.avail.pop()        # add_net marked the whole range; replace by per-leaf availability
    else:
      bid = d.new_id()
      d.blocks.append({'id': bid, 'name': f'blk_{bid}', 'comp': comp, 'kind': 'comb', 'asgs': [(t, ('r',) + src)], 'styles': {}})
      d.driven.append(t)
    mark_available(d, y)
    return

def add_net(d, reader, writer, implicit=False, flipped=False, style=0, host=''):
  root = d.net_root.get(writer, writer)
  n = d.nets.get(root)
  if n is None:
    n = {'id': d.new_id(), 'writer': root, 'readers': []}
    d.nets[root] = n
  n['readers'].append(reader)
  d.net_root[reader] = root
  d.driven.append(reader)
  d.avail.append(reader)
  if not implicit: d.conns.append((reader, writer, flipped, style, host))

def make_net(d, comp=''):
  rng = d.rng
  # reader: an undriven range writable by a connection made in comp: its wires/outs, its children's in ports
  free = d.free_ranges(lambda s: d.can_write(comp, s))
  if not free: return
  g, lo, w = rng.choice(free)
  if w > 1 and rng.random() < 0.4:
    w2 = rng.randint(1, w); lo += rng.randint(0, w - w2); w = w2
  # writer: an available range of the same width readable from comp
  cands = [r for r in d.readable_from(comp) if r[2] >= w]
  if not cands: return
  wg, wlo, ww = rng.choice(cands)
  off = rng.choice([0, ww - w, rng.randint(0, ww - w)])
  writer = (wg, wlo + off, w)
  if wg == g: return
  add_net(d, (g, lo, w), writer, flipped=rng.random() < 0.5, style=rng.randint(0, 1), host=comp)

def make_var_index_write(d):
  """default-then-override through a signal-valued index: `for i in range(n): s.wl[i] @= dflt` ; `s.wl[s.sel] @= x`.
  Model: wl[k] = mux(sel == k, x, dflt) for the reachable k (parallel assignment; x and sel do not read the list)."""
  rng = d.rng
  lists = {}
  for sg in d.sigs:
    mm = re.match(r'(\w+)\[(\d+)\]$', sg.name)
    if mm and sg.comp == '' and sg.kind in ('wire', 'out') and sg.stype is None: lists.setdefault(mm.group(1), []).append(sg)
  drv = {g for (g, _, _) in d.driven}
  lists = {b: sorted(v, key=lambda x: int(re.search(r'\[(\d+)\]$', x.name).group(1))) for b, v in lists.items()
           if not any(x.idx in drv or x.idx in d.regs for x in v)}
  if not lists: return False
  base = rng.choice(sorted(lists)); elems = lists[base]
  w = elems[0].width
  mine = {x.idx for x in elems}
  readable = [r for r in d.readable_from('') if r[0] not in mine]
  nb = 2 if len(elems) >= 4 and rng.random() < 0.6 else 1
  sels = [(g, l, x) for (g, l, x) in readable if x == nb and (l, l + x) in d.leaf_bounds(d.sigs[g]) and d.sigs[g].name != 'reset']
  if not sels or not readable: return False
  sel = rng.choice(sels)
  x = d.gen_expr(w, readable, rng.randint(0, 2))
  dflt = ('c', w, rng.choice([0, 0, (1 << w) - 1, rng.getrandbits(w)]))
  n = min(len(elems), 1 << nb)
  asgs = []
  for k, el in enumerate(elems):
    e = ('m', ('b', 'eq', nb, ('r',) + sel, ('c', nb, k)), x, dflt) if k < n else dflt
    asgs.append(((el.idx, 0, w), e))
  bid = d.new_id()
  body = [f'for i in range({len(elems)}):', f'  s.{base}[i] @= {d.py_expr("", dflt)}',
          f's.{base}[{d.ref("", sel)}] @= {d.py_expr("", x)}']
  for (t, _) in asgs: d.driven.append(t)
  for (t, _) in asgs: d.avail.append(t)
  d.blocks.append({'id': bid, 'name': f'blk_{bid}', 'comp': '', 'kind': 'comb', 'asgs': asgs, 'styles': {}, 'body': body})
  return True

def make_comb(d, comp):
  rng = d.rng
  if comp == '' and rng.random() < 0.12 and make_var_index_write(d): return
  free = d.free_ranges(lambda s: d.can_write(comp, s))
  if not free: return
  readable = d.readable_from(comp)
  if not readable: return
  bid = d.new_id()
  asgs, styles = [], {}
  rng.shuffle(free)
  d.allow_helpers = (comp == '')
  for (g, lo, w) in free[:rng.randint(1, 2)]:
    if w > 1 and rng.random() < 0.45:
      w2 = rng.randint(1, w - 1); lo += rng.choice([0, w - w2]); w = w2
    e = d.gen_expr(w, readable, rng.randint(1, 3))
    if rng.random() < 0.3:
      e = ('m', d.gen_expr(1, readable, 1), e, d.gen_expr(w, readable, 1)); styles[len(asgs)] = 'ifelse'
    asgs.append(((g, lo, w), e))
  for (t, _) in asgs:
    d.driven.append(t)
  for (t, _) in asgs:
    d.avail.append(t)
  d.allow_helpers = False
  d.blocks.append({'id': bid, 'name': f'blk_{bid}', 'comp': comp, 'kind': 'comb', 'asgs': asgs, 'styles': styles})

def make_ff(d, comp, regs):
  rng = d.rng
  bid = d.new_id()
  # an ff block may read every signal its host can read, whenever it is driven
  readable = []
  for s in d.sigs:
    if d.can_read(comp, s):
      readable.append((s.idx, 0, s.width))
  reset = next(s for s in d.sigs if s.comp == comp and s.name == 'reset')
  # ranges usable in arithmetic: whole Bits signals and the leaf fields of struct signals
  arith = []
  for (g0, _, _) in readable:
    for (l, h) in d.leaf_bounds(d.sigs[g0]): arith.append((g0, l, h - l))
  whole, readable = readable, arith
  asgs, styles = [], {}
  for g in regs:
    w = d.sigs[g].width
    self_r = ('r', g, 0, w)
    if d.sigs[g].stype is not None:
      same = [('r', x[0], 0, w) for x in whole if d.sigs[x[0]].stype is d.sigs[g].stype]
      e = rng.choice(same)
      k = rng.random()
      if k < 0.3 and d.sigs[g].comp == comp:
        # `r <<= x` then `if c: r <<= r`: the later hold wins (the struct register keeps its value while c)
        asgs.append(((g, 0, w), e))
        styles[len(asgs)] = 'override'
        asgs.append(((g, 0, w), ('m', d.gen_expr(1, [x for x in arith], 1), self_r, e)))
        continue
      if k < 0.65:
        e = ('m', d.gen_expr(1, [x for x in arith], 1), e, rng.choice(same)); styles[len(asgs)] = rng.choice(['ifelse', 'inline'])
      asgs.append(((g, 0, w), e))
      continue
    e = d.gen_expr(w, readable, rng.randint(1, 3))
    k = rng.random()
    if k < 0.35:
      e = ('m', ('r', reset.idx, 0, 1), ('c', w, rng.choice([0, 1, (1 << w) - 1])), e); styles[len(asgs)] = 'ifelse'
      asgs.append(((g, 0, w), e))
    elif k < 0.55 and d.sigs[g].comp == comp:
      e = ('m', d.gen_expr(1, readable, 1), e, self_r); styles[len(asgs)] = 'hold'
      asgs.append(((g, 0, w), e))
    elif k < 0.75:
      asgs.append(((g, 0, w), e))
      c = d.gen_expr(1, readable, 1)
      e2 = d.gen_expr(w, readable, 1)
      styles[len(asgs)] = 'override'
      asgs.append(((g, 0, w), ('m', c, e2, e)))
    else:
      asgs.append(((g, 0, w), e))
  d.blocks.append({'id': bid, 'name': f'blk_{bid}', 'comp': comp, 'kind': 'ff', 'asgs': asgs, 'styles': styles})

# ---------------------------------------------------------------------------------------------
# running the real thing
# ---------------------------------------------------------------------------------------------
def load_class(workdir, d):
  modname = f'pvgen_{os.getpid()}_{d.uid}'
  path = os.path.join(workdir, modname + '.py')
  with open(path, 'w') as f: f.write(d.source())
  spec = importlib.util.spec_from_file_location(modname, path)
  mod = importlib.util.module_from_spec(spec)
  sys.modules[modname] = mod
  spec.loader.exec_module(mod)
  return getattr(mod, d.cls_name(''))

def quiet_dump_dag():
  """check_schedule() calls dump_dag() (graphviz render + viewer) before raising UpblkCyclicError; in a
  headless sandbox the viewer fails with FileNotFoundError and hides the real error. Neutralise the
  debugging aid in the harness process only."""
  import pymtl3.passes.sim.SimpleSchedulePass as ssp
  ssp.dump_dag = lambda *a, **k: None

class RealSim:
  """one elaborated + scheduled instance of a generated design"""
  def __init__(self, cls, d, flow, comb_order=None, ff_order=None, rah=True):
    quiet_dump_dag()
    from pymtl3.passes.PassGroups import DefaultPassGroup
    from pymtl3.passes.sim.GenDAGPass import GenDAGPass
    from pymtl3.passes.sim.WrapGreenletPass import WrapGreenletPass
    from pymtl3.passes.sim.SimpleSchedulePass import SimpleSchedulePass
    from pymtl3.passes.sim.PrepareSimPass import PrepareSimPass
    from pymtl3.passes.mamba.UnrollSimPass import UnrollSimPass
    from pymtl3.passes.mamba.PassGroups import HeuTopoUnrollSim, Mamba2020, UnrollSim
    self.d = d
    self.top = top = cls()
    top.elaborate()
    self.flow = flow
    # rah: the reset_active_high option of every pass group (polarity driven by sim_reset())
    if flow == 'default': top.apply(DefaultPassGroup(reset_active_high=rah))
    elif flow == 'heutopo': top.apply(HeuTopoUnrollSim(print_line_trace=False, reset_active_high=rah))
    elif flow == 'mamba': top.apply(Mamba2020(print_line_trace=False, reset_active_high=rah))
    elif flow == 'unroll': top.apply(UnrollSim(print_line_trace=False, reset_active_high=rah))
    elif flow in ('simple', 'simple-unroll'):
      GenDAGPass()(top); WrapGreenletPass()(top); SimpleSchedulePass()(top)
      self.index_blocks()
      if comb_order is not None:
        top._sched.update_schedule = [self.id2blk[i] for i in comb_order] + self.extra_blocks()
      if ff_order is not None:
        top._sched.schedule_ff = [self.id2blk[i] for i in ff_order]
      (PrepareSimPass if flow == 'simple' else UnrollSimPass)(print_line_trace=False, reset_active_high=rah)(top)
    else: raise ValueError(flow)
    self.index_blocks()

  def index_blocks(self):
    """map real block functions <-> model block ids (update blocks by name, net blocks by writer)"""
    top, d = self.top, self.d
    self.blk2id, self.id2blk, self.unknown = {}, {}, []
    names = {b['name']: b['id'] for b in d.blocks}
    for blk in top.get_all_update_blocks():
      if blk.__name__ in names:
        self.blk2id[blk] = names[blk.__name__]
    netkeys = {}
    for key, n in d.nets.items():
      netkeys['s.' + d.ref('', n['writer'])[2:]] = n['id']
    for blk in top._dag.genblks:
      rd = top._dag.genblk_reads.get(blk)
      k = repr(rd[0]) if rd else None
      if k in netkeys: self.blk2id[blk] = netkeys[k]
      else: self.unknown.append(blk)          # e.g. the clk net
    self.id2blk = {i: b for b, i in self.blk2id.items()}

  def extra_blocks(self):
    return list(self.unknown)

  def expand(self, fn, out):
    """flatten a schedule entry into model entries; SCC wrappers are reported as ('scc', fn)"""
    if fn in self.blk2id: out.append(('b', self.blk2id[fn])); return
    if fn in self.unknown: return
    name = getattr(fn, '__name__', '')
    if name.startswith('meta_block'):
      g = fn.__globals__
      i = 0
      while f'blk{i}' in g:
        self.expand(g[f'blk{i}'], out); i += 1
      return
    if name.startswith('wrapped_SCC'):
      out.append(('scc', fn)); return
    out.append(('?', name))

  def schedule_entries(self):
    out = []
    for fn in self.top._sched.update_schedule: self.expand(fn, out)
    return out

  def ff_entries(self):
    out = []
    for fn in self.top._sched.schedule_ff: self.expand(fn, out)
    return [e[1] for e in out if e[0] == 'b']

  def read_all(self):
    top = self.top
    vals = []
    for s in self.d.sigs:
      vals.append(int(resolve_path(top, s.path).to_bits()))
    return vals

  def set_inputs(self, ins):
    from pymtl3.datatypes import Bits
    for g, v in ins:
      sg = self.d.sigs[g]
      if sg.stype is not None:
        cls = getattr(sys.modules[type(self.top).__module__], sg.stype.name)
        v = cls.from_bits(Bits(sg.width, v))
      setattr_path(self.top, sg.path, v)

def resolve_path(top, path):
  """follow 'c0.wl[2]' from top"""
  obj = top
  for part in path.split('.'):
    m = re.match(r'(\w+)((?:\[\d+\])*)$', part)
    obj = getattr(obj, m.group(1))
    for i in re.findall(r'\[(\d+)\]', m.group(2)): obj = obj[int(i)]
  return obj

def setattr_path(top, path, v):
  sig = resolve_path(top, path)
  sig @= v

def gen_inputs(rng, d, ncycles):
  ins = [s for s in d.sigs if s.comp == '' and s.kind == 'in']
  cycles = []
  for _ in range(ncycles):
    cyc = []
    for s in ins:
      if s.name == 'reset':
        v = 1 if rng.random() < 0.15 else 0
      else:
        top = (1 << s.width) - 1
        v = rng.choice([0, 1, top, top - 1, 1 << (s.width - 1), rng.getrandbits(s.width), rng.getrandbits(s.width)])
        v &= top
      cyc.append((s.idx, v))
    cycles.append(cyc)
  return cycles

def model_sim_line(d, entries, ff_order, cycles):
  return leanio.line('rtl', 'sim', d.sexp(), [list(e) for e in entries], list(ff_order), [[list(p) for p in c] for c in cycles])

def parse_sim_reply(rep):
  """'ok ((a..)(b..)) ...' -> list of (after_comb, after_tick) int lists; 'cyclic k' -> ('cyclic', k)"""
  if rep.startswith('cyclic'): return ('cyclic', int(rep.split()[1]))
  assert rep.startswith('ok'), rep
  tree = leanio.parse_sexp(rep[2:])
  return [([int(x) for x in c[0]], [int(x) for x in c[1]]) for c in tree]

def linear_extensions(rng, nodes, edges, k):
  """k random linear extensions (random Kahn) of the DAG (nodes, edges)"""
  outs = []
  for _ in range(k):
    indeg = {n: 0 for n in nodes}
    succ = {n: [] for n in nodes}
    for a, b in edges:
      if a in indeg and b in indeg: indeg[b] += 1; succ[a].append(b)
    ready = [n for n in nodes if indeg[n] == 0]
    order = []
    while ready:
      n = ready.pop(rng.randrange(len(ready)))
      order.append(n)
      for m in succ[n]:
        indeg[m] -= 1
        if indeg[m] == 0: ready.append(m)
    if len(order) == len(nodes): outs.append(order)
  return outs

# ---------------------------------------------------------------------------------------------
# independent reference evaluator of the intermediate form (direct oracle: the dataflow equations
# evaluated in creation order, which is a topological order by construction)
# ---------------------------------------------------------------------------------------------
def ref_eval(e, vals):
  k = e[0]
  if k == 'c': return e[2] & ((1 << e[1]) - 1)
  if k == 'r': return (vals[e[1]] >> e[2]) & ((1 << e[3]) - 1)
  if k == 'n': return ~ref_eval(e[2], vals) & ((1 << e[1]) - 1)
  if k == 'b':
    op, w = e[1], e[2]
    a, b = ref_eval(e[3], vals), ref_eval(e[4], vals)
    M = (1 << w) - 1
    if op == 'add': return (a + b) & M
    if op == 'sub': return (a - b) & M
    if op == 'mul': return (a * b) & M
    if op == 'and': return a & b
    if op == 'or': return a | b
    if op == 'xor': return a ^ b
    if op == 'shl': return 0 if b >= w else (a << b) & M
    if op == 'shr': return a >> b
    return int({'eq': a == b, 'ne': a != b, 'lt': a < b, 'le': a <= b, 'gt': a > b, 'ge': a >= b}[op])
  if k == 'm': return ref_eval(e[2], vals) if ref_eval(e[1], vals) != 0 else ref_eval(e[3], vals)
  if k == 'cat': return (ref_eval(e[1], vals) << e[2]) | (ref_eval(e[3], vals) & ((1 << e[2]) - 1))
  raise ValueError(e)

def ref_assign(vals, t, v):
  g, lo, w = t
  mask = ((1 << w) - 1) << lo
  vals[g] = (vals[g] & ~mask) | ((v << lo) & mask)

class RefSim:
  def __init__(self, d):
    self.d = d
    self.vals = [0] * len(d.sigs)
    # creation order of comb work: blocks and nets interleaved by id (ids are allocated in creation order)
    items = [(b['id'], 'blk', b) for b in d.blocks if b['kind'] == 'comb'] + [(n['id'], 'net', n) for n in d.nets.values()]
    self.comb = [x for x in sorted(items, key=lambda x: x[0])]
    self.ff = [b for b in d.blocks if b['kind'] == 'ff']

  def eval_comb(self):
    # nets may have been created before their writer was driven by a later block only through exact-object
    # chaining; iterate to a fixed point (acyclic designs: at most len(comb) sweeps)
    # (false loops through slices / struct fields: one sweep per assignment of the longest bit-level chain)
    nasg = sum(len(x['asgs']) if kind == 'blk' else len(x['readers']) for _, kind, x in self.comb)
    for _ in range(nasg + 2):
      before = list(self.vals)
      for _, kind, x in self.comb:
        if kind == 'blk':
          for t, e in x['asgs']: ref_assign(self.vals, t, ref_eval(e, self.vals))
        else:
          for r in x['readers']: ref_assign(self.vals, r, ref_eval(('r',) + tuple(x['writer']), self.vals))
      if before == self.vals: break

  def cycle(self, ins):
    for g, v in ins: self.vals[g] = v
    self.eval_comb()
    a = list(self.vals)
    nxt = {}
    for b in self.ff:
      for t, e in b['asgs']: nxt[t[0]] = ref_eval(e, self.vals)
    for g, v in nxt.items(): self.vals[g] = v
    self.eval_comb()
    return a, list(self.vals)

def run_real(rs, cycles, rerun=True):
  """drive the real simulator: per cycle set inputs, sim_eval_combinational, sample, (re-run every comb
  block and check nothing changes), sim_tick, sample. Returns (trace, rerun_failures)."""
  top = rs.top
  trace, fails = [], []
  comb_blks = [b for b in top._dag.final_upblks if b not in top.get_all_update_ff()]
  for k, ins in enumerate(cycles):
    rs.set_inputs(ins)
    top.sim_eval_combinational()
    a = rs.read_all()
    if rerun:
      for blk in comb_blks:
        blk()
        a2 = rs.read_all()
        if a2 != a:
          fails.append({'cycle': k, 'block': blk.__name__, 'before': a, 'after': a2})
          break
    top.sim_tick()
    b = rs.read_all()
    if rerun:
      for blk in comb_blks:
        blk()
        b2 = rs.read_all()
        if b2 != b:
          fails.append({'cycle': k, 'block': blk.__name__, 'phase': 'after-tick', 'before': b, 'after': b2})
          break
    trace.append((a, b))
  return trace, fails

def real_edges(rs):
  """the implementation's constraint edges between comb blocks, as model id pairs"""
  top = rs.top
  out = set()
  for (u, v) in top._dag.all_constraints:
    if u in rs.blk2id and v in rs.blk2id:
      out.add((rs.blk2id[u], rs.blk2id[v]))
  return out

# ---------------------------------------------------------------------------------------------
# independent dependency computation (direct oracle for C02): bit overlap of syntactic footprints
# ---------------------------------------------------------------------------------------------
def expr_reads(e, out):
  k = e[0]
  if k == 'r': out.append((e[1], e[2], e[3]))
  elif k == 'n': expr_reads(e[2], out)
  elif k == 'b': expr_reads(e[3], out); expr_reads(e[4], out)
  elif k == 'm': expr_reads(e[1], out); expr_reads(e[2], out); expr_reads(e[3], out)
  elif k == 'cat': expr_reads(e[1], out); expr_reads(e[3], out)
  return out

def footprints(d):
  """block id -> (kind, reads, writes) with ranges (sig, lo, w)"""
  fp = {}
  for b in d.blocks:
    rds = []
    for t, e in b['asgs']: expr_reads(e, rds)
    fp[b['id']] = (b['kind'], rds, [t for t, _ in b['asgs']])
  for n in d.nets.values():
    fp[n['id']] = ('comb', [tuple(n['writer'])], list(n['readers']))
  return fp

def overlap(a, b):
  return a[0] == b[0] and a[1] < b[1] + b[2] and b[1] < a[1] + a[2]

def py_deps(d):
  """(A, B): comb block A writes a bit that block B (comb) reads, A != B"""
  fp = footprints(d)
  out = set()
  for a, (ka, _, wa) in fp.items():
    if ka == 'ff': continue
    for b, (kb, rb, _) in fp.items():
      if a == b or kb == 'ff': continue
      if any(overlap(x, y) for x in wa for y in rb): out.add((a, b))
  return out

def reachable(edges, a, b):
  succ = {}
  for x, y in edges: succ.setdefault(x, []).append(y)
  seen, todo = set(), [a]
  while todo:
    n = todo.pop()
    if n == b: return True
    if n in seen: continue
    seen.add(n); todo += succ.get(n, [])
  return False

def add_explicit(d, kind):
  """decorate a generated design with explicit U<U constraints. kind: 'order' (between independent blocks),
  'invert' (reverse one implicit edge that has no other path), 'cycle' (a pure explicit 2-cycle)"""
  rng = d.rng
  deps = py_deps(d)
  combs = [b for b in d.blocks if b['kind'] == 'comb' and not b.get('lam')]      # `//= lambda` blocks have no Python name
  pairs = [(a, b) for a in combs for b in combs if a['id'] < b['id'] and a['comp'] == b['comp']]
  rng.shuffle(pairs)
  for a, b in pairs:
    ia, ib = a['id'], b['id']
    dep = (ia, ib) in deps
    if kind == 'order' and not reachable(deps, ia, ib) and not reachable(deps, ib, ia):
      d.explicit.append((ia, ib)); return ('order', ia, ib)
    if kind == 'cycle' and not reachable(deps, ia, ib) and not reachable(deps, ib, ia):
      d.explicit += [(ia, ib), (ib, ia)]; return ('cycle', ia, ib)
    if kind == 'invert' and dep and not reachable(deps - {(ia, ib)}, ia, ib) and not reachable(deps, ib, ia):
      d.explicit.append((ib, ia)); return ('invert', ib, ia)
  return None

def parse_scc(rs, fn):
  """('scc', fn) entry -> (inner block ids in the real order, watch ranges) read from the generated wrapper"""
  import inspect, re
  d = rs.d
  src = inspect.getsource(fn)
  g = fn.__globals__
  if 'scc_tick_func' in g:
    blks = list(g['scc_tick_func'].__closure__[0].cell_contents)
  else:
    blks = []
    for m in re.finditer(r'^\s*(\w+)\(\)', src, re.M):
      if m.group(1) in g and callable(g[m.group(1)]) and m.group(1) != fn.__name__: blks.append(g[m.group(1)])
  ids = []
  for b in blks:
    if getattr(b, '__name__', '').startswith('meta_block'):
      # an SCC of >= 10 blocks is cut into several meta blocks (Mamba2020): the inner order is their concatenation
      sub = []
      rs.expand(b, sub)
      for e in sub:
        if e[0] != 'b': raise leanio.InfraError(f'unexpected entry {e} inside {b.__name__} of {fn.__name__}')
        ids.append(e[1])
      continue
    if b not in rs.blk2id: raise leanio.InfraError(f'unknown block {b.__name__} inside {fn.__name__}')
    ids.append(rs.blk2id[b])
  bypath = {s.path: s for s in d.sigs}
  watch = []
  for line in src.split('\n'):
    if '.clone()' not in line and 'deepcopy(' not in line: continue
    host = 's'
    for st in line.split(';'):
      st = st.strip()
      m = re.match(r'host\s*=\s*(\S+)$', st)
      if m: host = m.group(1); continue
      m = re.match(r't\d+\s*=\s*(?:deepcopy\()?host\.([^\s()]+?)(?:\.clone\(\)|\))$', st)
      if m:
        full = (host + '.' + m.group(1))[2:]
        mm = re.match(r'(.*)\[(\d+):(\d+)\]$', full)
        if mm and mm.group(1) in bypath:
          s_ = bypath[mm.group(1)]; watch.append((s_.idx, int(mm.group(2)), int(mm.group(3)) - int(mm.group(2))))
        elif full in bypath:
          watch.append((bypath[full].idx, 0, bypath[full].width))
        else:
          # a field (possibly nested, possibly sliced) of a struct-typed signal: `n.f0`, `w.inner.p1[0:2]`
          hit = None
          for sp, s_ in bypath.items():
            if s_.stype is not None and full.startswith(sp + '.'):
              rest = full[len(sp) + 1:]
              ms = re.match(r'(.*)\[(\d+):(\d+)\]$', rest)
              fld = ms.group(1) if ms else rest
              for (p_, lo, ww, _) in s_.stype.named():
                if p_ == fld:
                  hit = (s_.idx, lo + int(ms.group(2)), int(ms.group(3)) - int(ms.group(2))) if ms else (s_.idx, lo, ww)
          if hit is None: raise leanio.InfraError(f'cannot map watched variable {full!r} of {fn.__name__}')
          watch.append(hit)
  return ids, watch

def model_entries(rs):
  """schedule of a RealSim as model entries, SCC wrappers expanded"""
  out = []
  for e in rs.schedule_entries():
    if e[0] == 'b': out.append(('b', e[1]))
    elif e[0] == 'scc':
      ids, watch = parse_scc(rs, e[1])
      out.append(('scc', ids, [list(w) for w in watch]))
    else: raise leanio.InfraError(f'unexpected schedule entry {e}')
  return out

# ---------------------------------------------------------------------------------------------
# replaying a recorded failing input (source text + inputs) on the real simulator
# ---------------------------------------------------------------------------------------------
def replay_source(ck, case):
  """Re-run a recorded case on the real code: load case['source'], simulate case['inputs'] (signal indices refer to
  case['signals']) under every pass group, print the traces; returns 1 if the pass groups disagree, a re-run of a block
  changes state, or an exception occurs, else 0."""
  import re
  from pymtl3.datatypes import Bits
  src = case.get('source')
  if not src:
    print('no source recorded in this replay'); return 1
  m = re.search(r'class (Gen\d+_Top)\(', src.replace(' ', '')) or re.search(r'class\s+(\w+)\s*\(\s*Component', src)
  name = re.findall(r'class\s+(\w+)\s*\(\s*Component\s*\)', src)[-1]
  modname = f'pvreplay_{os.getpid()}'
  path = os.path.join(ck.workdir, modname + '.py')
  with open(path, 'w') as f: f.write(src)
  spec = importlib.util.spec_from_file_location(modname, path)
  mod = importlib.util.module_from_spec(spec); sys.modules[modname] = mod; spec.loader.exec_module(mod)
  cls = getattr(mod, name)
  sigs = case.get('signals')
  inputs = case.get('inputs') or []
  quiet_dump_dag()
  from pymtl3.passes.PassGroups import DefaultPassGroup
  from pymtl3.passes.mamba.PassGroups import HeuTopoUnrollSim, Mamba2020, UnrollSim
  traces, bad = {}, 0
  # a case of the reset stream: the recorded polarity option is given to every pass group and the first input vector is
  # followed by sim_reset() instead of an ordinary cycle
  has_rah = case.get('reset_active_high') is not None
  rah = bool(case.get('reset_active_high', True))
  for flow, grp in [('default', lambda: DefaultPassGroup(reset_active_high=rah)), ('heutopo', lambda: HeuTopoUnrollSim(print_line_trace=False, reset_active_high=rah)),
                    ('mamba', lambda: Mamba2020(print_line_trace=False, reset_active_high=rah)), ('unroll', lambda: UnrollSim(print_line_trace=False, reset_active_high=rah))]:
    try:
      top = cls(); top.elaborate(); top.apply(grp())
      tr = []
      for ci, cyc in enumerate(inputs):
        if has_rah and ci == 0:
          for g, v in cyc:
            cur = resolve_path(top, sigs[g])
            if hasattr(type(cur), 'from_bits') and not isinstance(cur, Bits): v = type(cur).from_bits(Bits(cur.nbits, v))
            cur @= v
          top.sim_reset()
          st = [int(resolve_path(top, sp).to_bits()) for sp in (sigs or [])]
          tr.append((st, st)); continue
        for g, v in cyc:
          if sigs is None: continue
          cur = resolve_path(top, sigs[g])
          if hasattr(type(cur), 'from_bits') and not isinstance(cur, Bits):
            v = type(cur).from_bits(Bits(cur.nbits, v))
          cur @= v
        top.sim_eval_combinational()
        def snap():
          out = []
          for sp in (sigs or []):
            out.append(int(resolve_path(top, sp).to_bits()))
          return out
        a = snap()
        for blk in [b for b in top._dag.final_upblks if b not in top.get_all_update_ff()]:
          blk()
          if snap() != a:
            print(f'{flow}: re-running {blk.__name__} changed the state: {a} -> {snap()}'); bad = 1; break
        top.sim_tick(); tr.append((a, snap()))
      traces[flow] = tr
      print(flow, tr)
    except Exception as e:
      print(flow, 'raised', type(e).__name__, str(e)[:200]); traces[flow] = ('exc', type(e).__name__); bad = 1
  vals = list(traces.values())
  if any(v != vals[0] for v in vals): print('pass groups disagree'); bad = 1
  return bad

def generate_slices(rng):
  """directed family for overlap shapes: one or two signals cut into 3-5 pieces written by different blocks / nets,
  read back through random sub-ranges (strictly containing a piece, overlapping either end, sharing a bound, inside a
  piece, exact), plus readers of the whole signal"""
  d = Design(rng, next(_uid))
  d.new_sig('', 'reset', 1, 'in')
  ins = [d.new_sig('', f'in{i}', rng.choice([8, 12, 16]), 'in') for i in range(2)]
  for s in ins: mark_available(d, s)
  targets = [d.new_sig('', nm, rng.choice([8, 10, 12, 16]), rng.choice(['wire', 'out'])) for nm in rng.sample(['w', 'w1', 'w10', 'wx'], rng.randint(1, 2))]
  outs = [d.new_sig('', f'out{i}', 16, 'out') for i in range(rng.randint(2, 4))]
  for t in targets:
    k = rng.randint(3, 5)
    cuts = sorted(rng.sample(range(1, t.width), k - 1))
    bounds = [0] + cuts + [t.width]
    pieces = [(bounds[i], bounds[i + 1]) for i in range(k)]
    rng.shuffle(pieces)
    for (lo, hi) in pieces:
      w = hi - lo
      readable = d.readable_from('')
      src = [r for r in readable if r[0] in (ins[0].idx, ins[1].idx)]
      wide_enough = [r for r in src if r[2] >= w]
      if rng.random() < 0.3 and wide_enough:
        g, l0, w0 = rng.choice(wide_enough)
        add_net(d, (t.idx, lo, w), (g, l0 + rng.randint(0, w0 - w), w), style=1)
      else:
        bid = d.new_id()
        e = d.gen_expr(w, src, rng.randint(0, 2))
        styles = {}
        if rng.random() < 0.4:
          e = ('m', d.gen_expr(1, src, 1), e, d.gen_expr(w, src, 1)); styles[0] = 'ifelse'
        d.blocks.append({'id': bid, 'name': f'blk_{bid}', 'comp': '', 'kind': 'comb', 'asgs': [((t.idx, lo, w), e)], 'styles': styles})
        d.driven.append((t.idx, lo, w)); d.avail.append((t.idx, lo, w))
  # readers: every out gets slices read from random sub-ranges of the targets
  for o in outs:
    pos = 0
    asgs = []
    while pos < o.width:
      t = rng.choice(targets)
      w = min(rng.randint(1, t.width), o.width - pos)
      lo = rng.randint(0, t.width - w)
      asgs.append(((o.idx, pos, w), ('r', t.idx, lo, w)))
      pos += w
    # one block per piece or one block for all
    if rng.random() < 0.5:
      bid = d.new_id()
      d.blocks.append({'id': bid, 'name': f'blk_{bid}', 'comp': '', 'kind': 'comb', 'asgs': asgs, 'styles': {}})
    else:
      for a in asgs:
        bid = d.new_id()
        e = a[1]
        if rng.random() < 0.3: e = ('n', a[0][2], e)
        d.blocks.append({'id': bid, 'name': f'blk_{bid}', 'comp': '', 'kind': 'comb', 'asgs': [(a[0], e)], 'styles': {}})
    for a in asgs: d.driven.append(a[0]); d.avail.append(a[0])
  return d
