"""Shared pieces of the Bits checks (C04, C05): operand generation, running the real operators,
canonical result strings, and the independent arithmetic specification used as direct oracle."""
import operator

from pymtl3.datatypes import Bits, mk_bits
from pymtl3.datatypes import concat, trunc, zext, sext, clog2, reduce_and, reduce_or, reduce_xor

EDGE_WIDTHS = [1, 2, 3, 4, 5, 7, 8, 9, 15, 16, 17, 31, 32, 33, 63, 64, 65, 127, 128, 129, 255, 256, 257,
               383, 384, 511, 512, 513, 1000, 1022, 1023]

def rand_width(rng):
  r = rng.random()
  if r < 0.55: return rng.choice(EDGE_WIDTHS)
  if r < 0.85: return rng.randint(1, 40)
  return rng.randint(1, 1023)

def rand_value(rng, n):
  """boundary-biased unsigned value of width n"""
  top = (1 << n) - 1
  r = rng.random()
  if r < 0.45:
    cands = [0, 1, 2, top, top - 1, 1 << (n - 1), (1 << (n - 1)) - 1, (1 << (n - 1)) + 1, n - 1, n, n + 1, top >> 1]
    v = rng.choice(cands)
    return max(0, min(top, v))
  if r < 0.6:
    return rng.getrandbits(min(n, rng.randint(1, 8)))
  return rng.getrandbits(n)

def rand_int(rng, n):
  """an int operand: in range, just out of range, negative, huge"""
  top = (1 << n) - 1
  lo = -(1 << (n - 1))
  r = rng.random()
  if r < 0.5: return rand_value(rng, n)
  cands = [-1, -2, lo, lo - 1, lo + 1, top + 1, top + 2, 2 * top + 1, -(top + 1), -top, 1 << n, (1 << n) + 1, 1 << (n + 3)]
  if r < 0.9: return rng.choice(cands)
  return rng.randint(-(1 << (n + 2)), 1 << (n + 2))

def mk(n, v):
  """a real Bits object of width n with stored value v (constructed through the public API)"""
  return mk_bits(n)(v) if (n + v) % 2 == 0 else Bits(n, v)

def canon_exc(e):
  return 'err ' + type(e).__name__

def canon_bits(x):
  if isinstance(x, Bits):
    return f'ok {int(x.nbits)} {int(x.uint())}'
  return f'notbits {type(x).__name__} {x!r}'

def run(fn):
  try:
    return canon_bits(fn())
  except Exception as e:
    return canon_exc(e)

def run_fresh(fn, operands=()):
  """like run(), plus the purity oracle of a value-returning operator: the result is a new object (not an operand, not a
  previously returned result), so updating it in place must not change what the same operation returns next time, and the
  operands must come back unchanged.  A breach is reported as an outcome no specification accepts."""
  try:
    r1 = fn()
  except Exception as e:
    return canon_exc(e)
  out = canon_bits(r1)
  if not isinstance(r1, Bits): return out
  before = [(id(o), int(o.nbits), int(o.uint())) for o in operands if isinstance(o, Bits)]
  for o in operands:
    if o is r1: return out          # returning an operand itself is not forbidden by the property: no in-place probe then
  try:
    n = int(r1.nbits)
    r1 @= (int(r1.uint()) ^ ((1 << n) - 1))        # in-place update of the returned object ...
    r2 = fn()                                      # ... (evaluated after EACH update: for a 1-bit result the two updates cancel)
    if canon_bits(r2) == out and r2 is not r1:
      r1[0] = 1 - int(r1[0])
      r2 = fn()
  except Exception as e:
    return f'alias second-evaluation-raised {type(e).__name__} {out}'
  if canon_bits(r2) != out: return f'alias result-changed-after-in-place-update-of-earlier-result {out} -> {canon_bits(r2)}'
  if r2 is r1: return f'alias same-object-returned-twice {out}'
  after = [(id(o), int(o.nbits), int(o.uint())) for o in operands if isinstance(o, Bits)]
  if after != before: return f'alias operand-changed {out}'
  return out

def run_read_fresh(fn, x):
  """like run() for an operation that READS the Bits object x (slice, bit, concat, extension, ...): the result is a value of
  its own — updating x in place afterwards must not change it, and updating the result in place must not change x."""
  try:
    r1 = fn()
  except Exception as e:
    return canon_exc(e)
  out = canon_bits(r1)
  if not isinstance(r1, Bits) or not isinstance(x, Bits): return out
  try:
    n, v = int(x.nbits), int(x.uint())
    x @= v ^ ((1 << n) - 1)
    if canon_bits(r1) != out: return f'alias value-read-earlier-changed-when-the-source-was-updated {out} -> {canon_bits(r1)}'
    x @= v
    r1[0] = 1 - int(r1[0])
    if int(x.uint()) != v: return f'alias writing-the-result-changed-the-source {out}: source {v} -> {int(x.uint())}'
    r2 = fn()              # the updated result must not be what the operation hands out next time (shared / cached objects)
    if canon_bits(r2) != out: return f'alias updating-an-earlier-result-changed-the-next-result {out} -> {canon_bits(r2)}'
  except Exception as e:
    return f'alias probe-raised {type(e).__name__} {out}'
  return out

def run_int(fn):
  try:
    return f'int {int(fn())}'
  except Exception as e:
    return canon_exc(e)

BINOPS = {
  'add': operator.add, 'sub': operator.sub, 'mul': operator.mul, 'and': operator.and_, 'or': operator.or_,
  'xor': operator.xor, 'floordiv': operator.floordiv, 'mod': operator.mod, 'lshift': operator.lshift,
  'rshift': operator.rshift,
}
CMPOPS = {'eq': operator.eq, 'ne': operator.ne, 'lt': operator.lt, 'le': operator.le, 'gt': operator.gt, 'ge': operator.ge}

class NotInt:
  """an operand that int() cannot convert"""
  def __repr__(self): return 'NotInt()'

def opnd_sexp(o):
  kind = o[0]
  if kind == 'b': return ('b', o[1], o[2])
  if kind == 'i': return ('i', o[1])
  return ('o',)

def opnd_real(o):
  kind = o[0]
  if kind == 'b': return mk(o[1], o[2])
  if kind == 'i':
    k = o[1]
    return k
  return NotInt()

# ----------------------------------------------------------------------------------------------
# Independent specification (written from the property statement, not from the code or the model)
# returns the set of acceptable canonical outcomes
# ----------------------------------------------------------------------------------------------
ERRV = 'err ValueError'

def spec_binop(op, n, a, y):
  """x = Bits(n,a) on the left; y = operand tuple"""
  M = 1 << n
  if y[0] == 'b':
    m, b = y[1], y[2]
    if m != n:
      if op in ('lshift', 'rshift'):
        # a shift amount of another width may be rejected or accepted with the left-operand width
        r = (0 if b >= n else (a << b) % M) if op == 'lshift' else (a >> b)
        return {ERRV, f'ok {n} {r}'}
      return {ERRV}
  elif y[0] == 'i':
    b = y[1]
    if b < 0 or b >= M: return {ERRV}
  else:
    return {'err TypeError', ERRV}
  if op == 'add': r = (a + b) % M
  elif op == 'sub': r = (a - b) % M
  elif op == 'mul': r = (a * b) % M
  elif op == 'and': r = a & b
  elif op == 'or': r = a | b
  elif op == 'xor': r = a ^ b
  elif op == 'floordiv':
    if b == 0: return {'err ZeroDivisionError'}
    r = a // b
  elif op == 'mod':
    if b == 0: return {'err ZeroDivisionError'}
    r = a % b
  elif op == 'lshift': r = 0 if b >= n else (a << b) % M
  elif op == 'rshift': r = a >> b
  return {f'ok {n} {r}'}

def spec_rbinop(op, k, n, a):
  """k (an int) on the left, x = Bits(n,a) on the right"""
  M = 1 << n
  if op in ('lshift', 'rshift'): return {'err TypeError', ERRV}
  if k[0] != 'i': return {'err TypeError', ERRV}
  k = k[1]
  if k < 0 or k >= M: return {ERRV}
  if op == 'add': r = (k + a) % M
  elif op == 'sub': r = (k - a) % M
  elif op == 'mul': r = (k * a) % M
  elif op == 'and': r = k & a
  elif op == 'or': r = k | a
  elif op == 'xor': r = k ^ a
  elif op == 'floordiv':
    if a == 0: return {'err ZeroDivisionError'}
    r = k // a
  elif op == 'mod':
    if a == 0: return {'err ZeroDivisionError'}
    r = k % a
  return {f'ok {n} {r}'}

def spec_cmp(op, n, a, y):
  M = 1 << n
  if y[0] == 'b':
    if y[1] != n: return {ERRV}
    b = y[2]
  elif y[0] == 'i':
    b = y[1]
    if b < 0 or b >= M: return {ERRV}
  else:
    if op == 'eq': return {'ok 1 0'}
    if op == 'ne': return {'ok 1 1'}
    return {'err TypeError', ERRV}
  t = {'eq': a == b, 'ne': a != b, 'lt': a < b, 'le': a <= b, 'gt': a > b, 'ge': a >= b}[op]
  return {f'ok 1 {int(t)}'}

SWAP = {'eq': 'eq', 'ne': 'ne', 'lt': 'gt', 'le': 'ge', 'gt': 'lt', 'ge': 'le'}

def spec_ctor(nbits, v, trunc):
  if nbits < 1 or nbits >= 1024: return {ERRV}
  M = 1 << nbits
  if v[0] == 'b':
    return {f'ok {nbits} {v[2]}'} if v[1] == nbits else {ERRV}
  if v[0] == 'i':
    k = v[1]
    if not trunc and not (-(M >> 1) <= k < M): return {ERRV}
    return {f'ok {nbits} {k % M}'}
  return {'err TypeError', ERRV}

def spec_assign(n, v):
  M = 1 << n
  if v[0] == 'b':
    return {f'ok {n} {v[2]}'} if v[1] == n else {ERRV}
  if v[0] == 'i':
    k = v[1]
    if not (-(M >> 1) <= k < M): return {ERRV}
    return {f'ok {n} {k % M}'}
  return {'err TypeError', ERRV}
