"""Common frame of every property check.

A check module (harness/checks/cXX.py) provides

  PID          'C04'
  MODULE       Lean module holding the property theorems, e.g. 'PymtlVerif.Props.C04'
  DRIVERS      list of handler names whose native drivers (lean exe pv_<name>) the check uses, e.g. ['bits']
  THEOREMS     list of fully qualified theorem names = the proof obligations
  TRUSTED      list of strings (trusted base specific to the property)
  ASSUMPTIONS  list of strings
  RULE         how cases are generated and what makes one non-trivial
  run(ck)      the correspondence check; uses the Check object below

and this module does the rest: Lean build + axiom audit, corpus/known-finding bookkeeping,
failing-input reporting, VIOLATION / KNOWN-FINDING lines, evidence, exit status.

Exit status: 0 = property held on everything explored (known findings may be printed),
1 = violation (line `VIOLATION property=<id> replay=<path>`), 2 = infrastructure problem.
"""
import hashlib, json, os, random, sys, time, traceback

from . import leanio
from .leanio import InfraError, MachineryError, VERIF

EVIDENCE_DIR = os.path.join(VERIF, 'evidence')
REPLAY_DIR = os.path.join(VERIF, 'replays')
WORK_DIR = os.path.join(VERIF, '.work')
KNOWN_FINDINGS = os.path.join(VERIF, 'known_findings.json')
BASE_TRUSTED = [
  'Lean 4.33.0 kernel (thorough tier: re-checked by leanchecker)',
  'axioms: subset of {propext, Classical.choice, Quot.sound}, audited with #print axioms on every run; no sorry/admit/native_decide/bv_decide/own axioms (source scan on every run)',
  'hand-written Lean model (modelled, not verified); tied to /repo by this run\'s correspondence check (differential execution, bounded by its generators) and, where the check names a translator below, additionally by definitions regenerated from /repo\'s source on this run and proved equal to the model',
  'harness glue: S-expression protocol, canonicalisation of Python results, CPython 3.12',
]

def canon(x):
  return json.dumps(x, sort_keys=True, default=str)

def h12(x):
  return hashlib.sha256(canon(x).encode()).hexdigest()[:12]

class Violation:
  def __init__(self, kind, signature, case, detail, no_input=False):
    self.kind = kind              # short class of failure, e.g. 'spec-mismatch'
    self.signature = signature    # dict used for known-finding matching
    self.case = case              # the concrete failing input / history (JSON-able)
    self.detail = detail          # dict: model output, impl output, oracle verdict, ...
    self.no_input = no_input      # True: proof/correspondence broken, no failing input found

class Check:
  def __init__(self, mod, tier, seed):
    self.mod = mod
    self.pid = mod.PID
    self.tier = tier
    self.seed = seed
    self.rng = random.Random(f'{seed}:{self.pid}:{tier}')
    random.seed(f'{seed}:{self.pid}:{tier}:global')   # pymtl3 passes use the global PRNG
    self.t0 = time.time()
    self.evaluations = 0
    self.distinct = set()
    self.nontrivial = set()
    self.samples = []
    self.max_samples = 6
    self.dist = {}                 # histogram name -> {bucket: count}
    self.violations = []
    self.breaks = []               # correspondence disagreements not (yet) shown to violate the property
    self.broken_theorems = []
    self.obligations = 0
    self.discharged = 0
    self.axioms = {}
    self.notes = []
    self.known_hits = {}
    self.extra_cov = {}
    self._drivers = {}
    os.makedirs(WORK_DIR, exist_ok=True)
    self.workdir = os.path.join(WORK_DIR, f'{self.pid}-{tier}-{os.getpid()}')
    os.makedirs(self.workdir, exist_ok=True)

  # ---------------------------------------------------------------- Lean side
  def drv(self, handler):
    """the native Lean driver of a handler family (mod.DRIVERS lists the ones this check uses)"""
    if handler not in self._drivers:
      self._drivers[handler] = leanio.Driver(handler)
    return self._drivers[handler]

  @property
  def driver(self):
    return self.drv(self.mod.DRIVERS[0])

  def proof_step(self):
    mod = self.mod
    theorems = list(mod.THEOREMS)
    self.obligations = len(theorems)
    modules = mod.MODULE if isinstance(mod.MODULE, (list, tuple)) else [mod.MODULE]
    # optional: regenerate Lean sources from /repo's current source before building (translator-based tie);
    # a translation failure is a broken obligation (the theorems about the generated definitions cannot be
    # re-checked), never a violation by itself
    if hasattr(mod, 'pregen'):
      try:
        for note in (mod.pregen(self) or []): self.notes.append(note)
      except InfraError:
        raise
      except Exception as e:
        self.broken_theorems.append({'theorem': 'translator (pregen)', 'msg': f'{type(e).__name__}: {e}'[:1500]})
    exes = ['pv_' + h for h in mod.DRIVERS]
    ok, out, dt = leanio.lake_build(list(modules) + exes)
    self.build_s = dt
    if not ok:
      # which theorem broke? try to name it from the error location
      self.build_log = out[-6000:]
      errs = [l for l in out.split('\n') if 'error' in l][:8]
      names = self._theorems_at_errors(out)
      self.broken_theorems.append({'theorem': ', '.join(names) if names else f'build of {modules}', 'msg': ' | '.join(errs)[:1500]})
      # the driver may still exist from an earlier build; correspondence can go on if so
      if not all(os.path.exists(leanio.driver_path(h)) for h in mod.DRIVERS):
        # the model/driver itself no longer builds: cannot run the correspondence at all
        raise MachineryError('lake build failed and a driver binary is missing:\n' + out[-3000:])
      return
    # source scan over the import closure of the property modules
    files = {}
    for m in modules: files.update(leanio.import_closure(m))
    hits = leanio.forbidden_scan(sorted(files.values()))
    self.scanned_files = len(files)
    if hits:
      self.broken_theorems.append({'theorem': 'source-scan', 'msg': '; '.join(hits)[:1500]})
    # axiom audit: every obligation must exist and use standard axioms only
    by_mod = {}
    for t in theorems:
      by_mod.setdefault(modules[0] if len(modules) == 1 else self._module_of(t, modules), []).append(t)
    for m, ts in by_mod.items():
      res, text = leanio.audit(m, ts, self.workdir)
      for t in ts:
        r = res[t]
        self.axioms[t] = r['axioms']
        if r['ok'] and not hits: self.discharged += 1
        elif not r['ok']: self.broken_theorems.append({'theorem': t, 'msg': r['msg']})
    if self.tier == 'thorough' and not self.broken_theorems and os.environ.get('VERIF_NO_LEANCHECKER') != '1':
      self.leanchecker(modules)

  @staticmethod
  def _theorems_at_errors(out):
    """names of the theorems/definitions enclosing the error locations of a failed lake build"""
    import re
    names = []
    for m in re.finditer(r'error: (\S+\.lean):(\d+):\d+', out):
      path, line = os.path.join(leanio.LEAN_DIR, m.group(1)), int(m.group(2))
      try: src = open(path).read().split('\n')
      except OSError: continue
      for i in range(min(line, len(src)) - 1, -1, -1):
        mm = re.match(r'\s*(?:private\s+|protected\s+)?(?:theorem|lemma|def|instance|example)\s+([^\s:({\[]+)?', src[i])
        if mm:
          nm = f"{m.group(1)}:{mm.group(1) or 'example@' + str(i + 1)}"
          if nm not in names: names.append(nm)
          break
    return names[:6]

  def _module_of(self, theorem, modules):
    tm = getattr(self.mod, 'THEOREM_MODULE', {})
    return tm.get(theorem, modules[0])

  def leanchecker(self, modules):
    import subprocess
    t0 = time.time()
    try:
      r = subprocess.run(['lake', 'env', 'leanchecker'] + list(modules), cwd=leanio.LEAN_DIR,
                         stdout=subprocess.PIPE, stderr=subprocess.STDOUT, text=True, timeout=3000)
    except FileNotFoundError:
      self.notes.append('leanchecker not found'); return
    self.extra_cov['leanchecker'] = {'modules': list(modules), 'exit': r.returncode, 'wall_s': round(time.time() - t0, 1)}
    if r.returncode != 0:
      self.broken_theorems.append({'theorem': 'leanchecker', 'msg': r.stdout[-1500:]})

  # ---------------------------------------------------------------- bookkeeping
  def count(self, case, nontrivial=True):
    """Register one evaluated case. `case` must be JSON-able; distinctness is by canonical hash."""
    self.evaluations += 1
    k = h12(case)
    self.distinct.add(k)
    if nontrivial: self.nontrivial.add(k)
    if len(self.samples) < self.max_samples and (self.evaluations in (1, 2, 3) or self.rng.random() < 0.002):
      self.samples.append(case)

  def hist(self, name, bucket, k=1):
    d = self.dist.setdefault(name, {})
    d[str(bucket)] = d.get(str(bucket), 0) + k

  def violation(self, kind, signature, case, detail):
    """A concrete failing input of the PROPERTY on the real code."""
    self.violations.append(Violation(kind, signature, case, detail))

  def disagreement(self, what, case, model_out, impl_out):
    """Model and implementation differ on `case` but the direct oracle did not (yet) find the
    property violated on it."""
    self.breaks.append({'correspondence': what, 'case': case, 'model': model_out, 'impl': impl_out})

  def elapsed(self):
    return time.time() - self.t0

  # ---------------------------------------------------------------- known findings
  def load_findings(self):
    try:
      data = json.load(open(KNOWN_FINDINGS))
    except FileNotFoundError:
      return []
    return [f for f in data.get('findings', []) if f.get('property') == self.pid and f.get('status') == 'known']

  @staticmethod
  def finding_matches(f, v):
    if f.get('kind') and f['kind'] != v.kind: return False
    for k, want in (f.get('match') or {}).items():
      if v.signature.get(k) != want: return False
    return True

  # ---------------------------------------------------------------- the end
  def finish(self):
    findings = self.load_findings()
    new_violations = []
    for v in self.violations:
      hit = next((f for f in findings if self.finding_matches(f, v)), None)
      if hit is not None:
        self.known_hits.setdefault(hit['id'], (hit, v))
      else:
        new_violations.append(v)
    # broken proof obligations / correspondence with no failing input found
    if self.broken_theorems and not new_violations:
      new_violations.append(Violation('broken-proof', {'theorems': [b['theorem'] for b in self.broken_theorems]},
                                      None, {'broken': self.broken_theorems,
                                             'searched': f'{self.evaluations} cases of this run evaluated against the direct oracle of the property, none failed'},
                                      no_input=True))
    if self.breaks and not new_violations:
      b = self.breaks[0]
      new_violations.append(Violation('broken-correspondence', {'correspondence': b['correspondence']}, b['case'],
                                      {'first': b, 'n_disagreements': len(self.breaks),
                                       'searched': 'direct oracle of the property evaluated on the disagreeing inputs and on the directed batch: no failing input'},
                                      no_input=True))
    lines = []
    for fid, (f, v) in sorted(self.known_hits.items()):
      lines.append(f"KNOWN-FINDING: property={self.pid} {f['what']}")
    os.makedirs(REPLAY_DIR, exist_ok=True)
    seen = set()
    for v in new_violations:
      key = (v.kind, canon(v.signature))
      if key in seen: continue
      seen.add(key)
      path = os.path.join('replays', f'{self.pid}-{h12([v.kind, v.signature, v.case])}.json')
      with open(os.path.join(VERIF, path), 'w') as f:
        json.dump({'property': self.pid, 'kind': v.kind, 'signature': v.signature, 'case': v.case,
                   'detail': v.detail, 'seed': self.seed, 'tier': self.tier,
                   'no_failing_input_found': v.no_input,
                   'unchecked': ([b['theorem'] for b in self.broken_theorems] +
                                 sorted({b['correspondence'] for b in self.breaks})) if v.no_input else []},
                  f, indent=1, default=str)
      lines.append(f'VIOLATION property={self.pid} replay={path}' + (' no-failing-input-found' if v.no_input else ''))
      if len(seen) >= 5: break
    self.write_evidence(len(new_violations))
    for l in lines: print(l)
    status = 1 if new_violations else 0
    print(f'[{self.pid} {self.tier}] obligations={self.obligations} discharged={self.discharged} '
          f'evaluations={self.evaluations} distinct_nontrivial={len(self.nontrivial)} '
          f'violations={len(new_violations)} known={len(self.known_hits)} wall={self.elapsed():.1f}s')
    return status

  def write_evidence(self, nviol):
    mod = self.mod
    os.makedirs(EVIDENCE_DIR, exist_ok=True)
    modules = mod.MODULE if isinstance(mod.MODULE, (list, tuple)) else [mod.MODULE]
    cov = {
      'obligations': self.obligations,
      'discharged': self.discharged,
      'checker_cmd': f"cd lean && lake build {' '.join(modules)} && lake env lean <generated #print axioms file>"
                     + (' && lake env leanchecker ' + ' '.join(modules) if self.tier == 'thorough' else ''),
      'trusted_base': BASE_TRUSTED + list(getattr(mod, 'TRUSTED', [])),
      'theorems': {t: self.axioms.get(t) for t in mod.THEOREMS},
      'broken_theorems': self.broken_theorems,
      'evaluations': self.evaluations,
      'distinct_nontrivial': len(self.nontrivial),
      'distinct': len(self.distinct),
      'rule': getattr(mod, 'RULE', ''),
      'samples': self.samples[:self.max_samples] or ['(no cases generated)'],
      'distribution': self.dist,
      'correspondence_disagreements': len(self.breaks),
      'known_findings_reproduced': sorted(self.known_hits),
      'driver_lines': sum(d.lines for d in self._drivers.values()),
      'exhaustive': bool(self.extra_cov.get('exhaustive', False)),
    }
    cov.update({k: v for k, v in self.extra_cov.items() if k != 'exhaustive'})
    ev = {
      'property_id': self.pid, 'tier': self.tier, 'seed': self.seed, 'level': 'proof',
      'coverage': cov,
      'assumptions': list(getattr(mod, 'ASSUMPTIONS', [])) + self.notes,
      'wall_s': round(self.elapsed(), 2),
      'violations': nviol,
    }
    with open(os.path.join(EVIDENCE_DIR, f'{self.pid}.json'), 'w') as f:
      json.dump(ev, f, indent=1, default=str)

def run_check(mod, tier, seed, replay=None):
  ck = Check(mod, tier, seed)
  try:
    if replay is not None:
      data = json.load(open(replay))
      return mod.replay(ck, data)
    ck.proof_step()
    try:
      mod.run(ck)
    except MachineryError:
      raise
    except Exception as e:
      # The harness could not drive the implementation to the end (an exception out of pymtl3 on an input the unchanged
      # tree handles, a generated design the implementation suddenly rejects, an interface the harness reads that is
      # gone, ...).  That is a broken correspondence, not an infrastructure hiccup: the property is no longer shown to hold
      # on this tree.  Concrete violations found before the stop are still reported as such.
      tb = traceback.format_exc()
      where = ''
      t = e.__traceback__
      while t is not None:
        where = f'{os.path.basename(t.tb_frame.f_code.co_filename)}:{t.tb_lineno}'; t = t.tb_next
      first = (str(e).strip().split('\n') or [''])[0][:300]
      print(f'[{mod.PID}] correspondence run stopped by {type(e).__name__} at {where}: {first}', file=sys.stderr)
      ck.disagreement(f'correspondence run could not be completed ({type(e).__name__} at {where})',
                      {'exception': type(e).__name__, 'message': str(e)[:4000]}, 'n/a', tb[-4000:])
    return ck.finish()
  except InfraError as e:
    print(f'[{mod.PID}] infrastructure error: {e}', file=sys.stderr)
    return 2
  except Exception:
    traceback.print_exc()
    print(f'[{mod.PID}] internal error of the check (not a verdict)', file=sys.stderr)
    return 2
  finally:
    import shutil
    shutil.rmtree(ck.workdir, ignore_errors=True)
