"""pymtl2rtl — derive the model form of `Model/Rtl.lean` from a REAL, elaborated pymtl3 component hierarchy.

`translate(top) -> (design_sexp, signal_table, notes)`; `Translator(top)` gives the same plus the block tables the harness
needs to map a real schedule onto model block ids.

What is read from the library objects (nothing is taken from a second description of the design):
  * signals    every top-level `Signal` of every component (also in lists / interfaces) = one model signal of its packed
               width; the bit range of a bitstruct field is MEASURED on the real class (`T.to_bits()` of an instance with
               only that field set), a slice `x[a:b]` is bits a..b-1 (`Bits.__getitem__`);
  * nets       `top.get_all_value_nets()`: one model block per net, `reader @= writer` for every other member;
  * blocks     the Python AST of every update / update_ff block (`inspect.getsource`, for `//= lambda` blocks the AST kept
               by `get_update_block_info`), free variables resolved through the block's closure / globals / the component
               objects themselves, SYMBOLICALLY EXECUTED with the dynamic semantics of `PythonBits` (width-equality of
               operands, range rules for ints, `__bool__`, `__index__`, in-place `@=`) into parallel assignments over the
               pre-state.

Python subset handled: `x @= e` / `x <<= e` on signals, struct fields, constant slices / bits, variable bit or list
indices (conditional writes); local temporaries (`t = e`, aliases of whole signals stay aliases like the real Bits object);
`if/elif/else` (mux, or folded when the test is a translate-time constant); `for v in range(..)/list` unrolled; `pass`;
expressions: names, attributes, constant and variable subscripts, slices (also `slice` objects in free variables),
`+ - * & | ^ ~ << >> == != < <= > >=`, 1-bit `and/or`, `not`, if-expressions, int / Bits / bitstruct constants,
`concat zext sext trunc reduce_and reduce_or reduce_xor`, `BitsN(..)` / `mk_bits(n)(..)` / `Bits(n, ..)` casts, bitstruct
constructors, and any call of a whitelisted pure function on translate-time constants (`range len clog2 min max ...`).
Everything else raises `Untranslatable(component, block, node)`.

Expression forms the model lacks are spelled with the existing constructors of `Model/Rtl.lean: Expr`:
  slice of a computed value = and(shr(e, lo), mask) (pushed through cat / mux / not / bitwise ops / reads when possible);
  variable bit select x[i] = and(shr(x, i), 1); variable list index = mux chain on (i == k); zext = the value itself;
  trunc = low slice; sext = cat(mux(sign, ones, 0), w, e); reduce_and = (e == ones); reduce_or = (e != 0);
  reduce_xor = xor chain over the bits; `not e` = (e == 0).

SHARING.  `Expr` is a tree, Python blocks build DAGs (the arbiter's kill chain doubles per iteration). When a value that is
stored (signal write, temporary, branch condition, index) is larger than `lift` nodes, it is bound to a fresh VIRTUAL
wire written by its own virtual comb block; the real block then reads that wire. Virtual wires are extra model signals
(flagged in the signal table, never compared with the implementation); a real block's virtual blocks must be scheduled
immediately before it (ff blocks: at the end of the comb schedule), `Translator.expand_order` does that. All model blocks
therefore stay "parallel assignments over the pre-state", which is what `noSelf` / `topoB` talk about.

notes['holds'] lists comb blocks with a target that is not assigned on some path (it keeps its pre-state value, so the
block reads what it writes: outside `noSelf`); notes['index_guards'] the variable indices whose range is smaller than
2^width (the real code raises IndexError beyond; the model selects 0 / writes nothing).
"""
import ast, builtins, inspect, operator, re, textwrap

class Untranslatable(Exception):
  def __init__(self, component, block, node, why=''):
    self.component, self.block, self.node, self.why = component, block, node, why
    where = ''
    if node is not None and hasattr(node, 'lineno'):
      try: where = f' at line {node.lineno}: `{ast.unparse(node)[:80]}`'
      except Exception: where = f' at line {node.lineno}'
    super().__init__(f'{component}:{block}{where}: {why}')

def natkey(s):
  return [int(t) if t.isdigit() else t for t in re.split(r'(\d+)', s)]

# ---------------------------------------------------------------------------------------------------------------------
# model expressions (tuples, as rtlgen renders them): ('c',w,v) ('r',g,lo,w) ('n',w,e) ('b',op,w,a,b) ('m',c,a,b) ('cat',a,wb,b)
# invariant kept by every constructor below: an expression of width w evaluates to a value < 2^w
# ---------------------------------------------------------------------------------------------------------------------
CMPS = ('eq', 'ne', 'lt', 'le', 'gt', 'ge')

def C(w, v): return ('c', w, v & ((1 << w) - 1))

_size_memo = {}
def esize(e):
  k = id(e)
  hit = _size_memo.get(k)
  if hit is not None and hit[0] is e: return hit[1]
  t = e[0]
  if t in ('c', 'r'): n = 1
  elif t == 'n': n = 1 + esize(e[2])
  elif t == 'b': n = 1 + esize(e[3]) + esize(e[4])
  elif t == 'm': n = 1 + esize(e[1]) + esize(e[2]) + esize(e[3])
  else: n = 1 + esize(e[1]) + esize(e[3])
  if len(_size_memo) > 200000: _size_memo.clear()
  _size_memo[k] = (e, n)
  return n

def _fold(op, w, a, b):
  M = (1 << w) - 1
  if op == 'add': return (a + b) & M
  if op == 'sub': return (a - b) & M
  if op == 'mul': return (a * b) & M
  if op == 'and': return a & b
  if op == 'or': return a | b
  if op == 'xor': return a ^ b
  if op == 'shl': return 0 if b >= w else (a << b) & M
  if op == 'shr': return 0 if b >= w else a >> b
  return int({'eq': a == b, 'ne': a != b, 'lt': a < b, 'le': a <= b, 'gt': a > b, 'ge': a >= b}[op])

def mk_not(w, e):
  if e[0] == 'c': return C(w, ~e[2])
  if e[0] == 'n' and e[1] == w: return e[2]
  return ('n', w, e)

def mk_bin(op, w, a, b):
  """operands of width w; result width w (1 for comparisons)"""
  if a[0] == 'c' and b[0] == 'c':
    return C(1 if op in CMPS else w, _fold(op, w, a[2], b[2]))
  ones = (1 << w) - 1
  if op == 'and':
    for x, y in ((a, b), (b, a)):
      if x[0] == 'c':
        if x[2] == 0: return C(w, 0)
        if x[2] == ones: return y
  elif op == 'or':
    for x, y in ((a, b), (b, a)):
      if x[0] == 'c':
        if x[2] == 0: return y
        if x[2] == ones: return C(w, ones)
  elif op == 'xor':
    for x, y in ((a, b), (b, a)):
      if x[0] == 'c' and x[2] == 0: return y
  elif op in ('add',):
    for x, y in ((a, b), (b, a)):
      if x[0] == 'c' and x[2] == 0: return y
  elif op in ('sub', 'shl', 'shr'):
    if b[0] == 'c' and b[2] == 0: return a
  return ('b', op, w, a, b)

def mk_mux(c, a, b):
  if c[0] == 'c': return a if c[2] != 0 else b
  if a == b: return a
  return ('m', c, a, b)

def mk_cat(a, wb, b):
  if a[0] == 'c' and b[0] == 'c': return ('c', a[1] + wb, (a[2] << wb) | b[2])
  if a[0] == 'r' and b[0] == 'r' and a[1] == b[1] and b[2] + b[3] == a[2] and b[3] == wb:
    return ('r', a[1], b[2], a[3] + b[3])
  return ('cat', a, wb, b)

def slice_expr(e, W, lo, n):
  """bits lo..lo+n-1 of the width-W expression e"""
  assert 0 <= lo and n >= 1 and lo + n <= W, (W, lo, n)
  if lo == 0 and n == W: return e
  k = e[0]
  if k == 'c': return C(n, e[2] >> lo)
  if k == 'r':
    assert e[3] == W, (e, W)
    return ('r', e[1], e[2] + lo, n)
  if k == 'cat':
    wb = e[2]
    if lo + n <= wb: return slice_expr(e[3], wb, lo, n)
    if lo >= wb: return slice_expr(e[1], W - wb, lo - wb, n)
    return mk_cat(slice_expr(e[1], W - wb, 0, lo + n - wb), wb - lo, slice_expr(e[3], wb, lo, wb - lo))
  if k == 'm': return mk_mux(e[1], slice_expr(e[2], W, lo, n), slice_expr(e[3], W, lo, n))
  if k == 'n' and e[1] == W: return mk_not(n, slice_expr(e[2], W, lo, n))
  if k == 'b' and e[1] in ('and', 'or', 'xor') and e[2] == W:
    return mk_bin(e[1], n, slice_expr(e[3], W, lo, n), slice_expr(e[4], W, lo, n))
  shifted = e if lo == 0 else ('b', 'shr', W, e, C(W, lo))
  return ('b', 'and', n, shifted, C(n, (1 << n) - 1))

def ewidth(e):
  """structural width of an expression (every constructor keeps it equal to the nominal width of the value)"""
  k = e[0]
  if k == 'c': return e[1]
  if k == 'r': return e[3]
  if k == 'n': return e[1]
  if k == 'b': return 1 if e[1] in CMPS else e[2]
  if k == 'm':
    a, b = ewidth(e[2]), ewidth(e[3])
    if a != b: raise ValueError(f'mux branches of widths {a} / {b}')
    return a
  return ewidth(e[1]) + e[2]

def expr_reads(e, out):
  k = e[0]
  if k == 'r': out.append((e[1], e[2], e[3]))
  elif k == 'n': expr_reads(e[2], out)
  elif k == 'b': expr_reads(e[3], out); expr_reads(e[4], out)
  elif k == 'm': expr_reads(e[1], out); expr_reads(e[2], out); expr_reads(e[3], out)
  elif k == 'cat': expr_reads(e[1], out); expr_reads(e[3], out)
  return out

def overlap(a, b):
  return a[0] == b[0] and a[1] < b[1] + b[2] and b[1] < a[1] + a[2]

# ---------------------------------------------------------------------------------------------------------------------
# bitstruct layout, measured on the real class
# ---------------------------------------------------------------------------------------------------------------------
def _dt():
  import pymtl3.datatypes as dt
  from pymtl3.datatypes.bitstructs import is_bitstruct_class, is_bitstruct_inst
  return dt, is_bitstruct_class, is_bitstruct_inst

def type_width(ft):
  if isinstance(ft, list): return sum(type_width(x) for x in ft)
  return int(ft.nbits)

def _filled(ft, one):
  dt, is_bs, _ = _dt()
  if isinstance(ft, list): return [_filled(x, one) for x in ft]
  n = int(ft.nbits)
  v = dt.Bits(n, ((1 << n) - 1) if one else 0)
  return ft.from_bits(v) if is_bs(ft) else ft(int(v))

_layout_memo = {}
def field_range(T, name, idxs=()):
  """(lo, w, type) of field `name` (element `idxs` of a list-typed field) inside the packed value of bitstruct class T:
  the bits that change in the real `T.to_bits()` when only that field is set to all ones"""
  key = (T, name, tuple(idxs))
  if key in _layout_memo: return _layout_memo[key]
  ft = T.__bitstruct_fields__[name]
  def build(t, ix):
    if not ix: return _filled(t, True)
    v = _filled(t, False)
    v[ix[0]] = build(t[ix[0]], ix[1:])
    return v
  sub = ft
  for i in idxs: sub = sub[i]
  inst = T()
  setattr(inst, name, build(ft, list(idxs)))
  m = int(inst.to_bits())
  if m == 0: raise ValueError(f'field {name}{list(idxs)} of {T.__name__} does not show in to_bits()')
  lo = (m & -m).bit_length() - 1
  w = m.bit_length() - lo
  if m != ((1 << w) - 1) << lo or w != type_width(sub):
    raise ValueError(f'field {name}{list(idxs)} of {T.__name__} is not a contiguous range of to_bits(): {bin(m)}')
  _layout_memo[key] = (lo, w, sub)
  return lo, w, sub

# ---------------------------------------------------------------------------------------------------------------------
# symbolic values
# ---------------------------------------------------------------------------------------------------------------------
class Sym:
  """a Bits / bitstruct value: width, model expression, bitstruct class (or None)"""
  __slots__ = ('w', 'e', 'T')
  def __init__(self, w, e, T=None): self.w, self.e, self.T = w, e, T

class SRef:
  """a storage location: bits lo..lo+w-1 of model signal g; T = Bits class or bitstruct class; sliced = reached through
  a bit slice (the real object is then a fresh Bits, not the stored one)"""
  __slots__ = ('g', 'lo', 'w', 'T', 'sliced')
  def __init__(self, g, lo, w, T, sliced=False): self.g, self.lo, self.w, self.T, self.sliced = g, lo, w, T, sliced

class Choice:
  """`alts[idx]` with a symbolic index"""
  __slots__ = ('idx', 'alts')
  def __init__(self, idx, alts): self.idx, self.alts = idx, alts

class SInt:
  """a Python int that depends on signals: ('k', int) | ('m', cond expr, SInt tree, SInt tree)"""
  __slots__ = ('t',)
  def __init__(self, t): self.t = t

class Poison:
  __slots__ = ('why',)
  def __init__(self, why): self.why = why

SYMBOLIC = (Sym, SRef, Choice, SInt, Poison)

class Store:
  def __init__(self):
    self.tmp = {}
    self.alias = {}        # local name -> signal ranges its (snapshotted) value aliases in the real code
    self.sig = {}          # g -> sorted disjoint [(lo, w, expr)]
  def copy(self):
    s = Store()
    s.tmp = dict(self.tmp)
    s.alias = dict(self.alias)
    s.sig = {g: list(v) for g, v in self.sig.items()}
    return s
  def write(self, g, lo, w, e):
    segs = self.sig.get(g, [])
    out = []
    for (l, ww, x) in segs:
      if l + ww <= lo or lo + w <= l: out.append((l, ww, x)); continue
      if l < lo: out.append((l, lo - l, slice_expr(x, ww, 0, lo - l)))
      if l + ww > lo + w: out.append((lo + w, l + ww - lo - w, slice_expr(x, ww, lo + w - l, l + ww - lo - w)))
    out.append((lo, w, e))
    out.sort(key=lambda s: s[0])
    self.sig[g] = out
  def read(self, g, lo, w):
    """current symbolic value of bits lo..lo+w-1 (pieces never written = pre-state reads)"""
    pieces = []        # lsb first: (width, expr)
    pos = lo
    for (l, ww, x) in self.sig.get(g, []):
      if l + ww <= pos: continue
      if l >= lo + w: break
      if l > pos:
        pieces.append((l - pos, ('r', g, pos, l - pos))); pos = l
      a, b = max(l, pos), min(l + ww, lo + w)
      pieces.append((b - a, slice_expr(x, ww, a - l, b - a))); pos = b
    if pos < lo + w: pieces.append((lo + w - pos, ('r', g, pos, lo + w - pos)))
    acc = pieces[-1][1]
    for (pw, pe) in reversed(pieces[:-1]): acc = mk_cat(acc, pw, pe)
    return acc
  def covered(self, g, a, b):
    return any(l < b and a < l + ww for (l, ww, _) in self.sig.get(g, []))

# ---------------------------------------------------------------------------------------------------------------------
class Translator:
  def __init__(self, top, lift=24, max_nodes=400000):
    from pymtl3.dsl.Connectable import Signal, MethodPort
    self.top = top
    self.lift_at, self.max_nodes = lift, max_nodes
    if top.get_all_object_filter(lambda x: isinstance(x, MethodPort)) or top.get_all_update_once():
      raise Untranslatable(repr(top), None, None, 'not a pure RTL design (method ports / update_once)')
    sigs = [x for x in top.get_all_object_filter(lambda x: isinstance(x, Signal)) if x.is_top_level_signal()]
    sigs.sort(key=lambda x: natkey(repr(x)))
    self.signals = []                 # the signal table
    self.gid = {}
    for x in sigs:
      T = x._dsl.Type
      kind = 'in' if x.is_input_value_port() else 'out' if x.is_output_value_port() else 'wire'
      host = x.get_host_component()
      self.gid[id(x)] = len(self.signals)
      self.signals.append({'idx': len(self.signals), 'path': repr(x)[2:], 'width': int(T.nbits), 'kind': kind,
                           'host': repr(host), 'top_port': host is top, 'type': T.__name__, 'virtual': False})
    self._sig_objs = sigs             # keep the objects alive (ids are keys)
    self.n_real = len(self.signals)
    self.blocks = []                  # dict(id, kind 'comb'|'ff'|'net'|'virtual', host, name, asgs, virt, key)
    self.notes = {'holds': [], 'index_guards': [], 'lifted': 0, 'self_read': [], 'blocks': []}
    self._next_id = 0
    self._virt_count = 0
    self._done = False

  # ------------------------------------------------------------------ signals
  def sigref(self, x):
    """a real Signal object (top-level, field, slice) -> SRef"""
    dt, is_bs, _ = _dt()
    topsig = x._dsl.top_level_signal
    g = self.gid.get(id(topsig))
    if g is None: raise KeyError(f'signal {x!r} is not part of the elaborated hierarchy')
    chain = []
    y = x
    while y is not topsig:
      chain.append(y); y = y._dsl.parent_obj
    ref = SRef(g, 0, self.signals[g]['width'], topsig._dsl.Type)
    for y in reversed(chain):
      sl = y._dsl.slice
      if sl is not None: ref = self.ref_slice(ref, sl.start, sl.stop)
      else: ref = self.ref_field(ref, y._dsl._my_name, y._dsl._my_indices)
    return ref

  def ref_slice(self, ref, a, b):
    dt, is_bs, _ = _dt()
    if is_bs(ref.T): raise ValueError('slicing a bitstruct signal')
    if not (0 <= a < b <= ref.w): raise IndexError(f'[{a}:{b}] of a {ref.w}-bit signal')
    return SRef(ref.g, ref.lo + a, b - a, dt.mk_bits(b - a), True)

  def ref_field(self, ref, name, idxs=()):
    lo, w, ft = field_range(ref.T, name, idxs)
    if isinstance(ft, list):
      return [self.ref_field(ref, name, tuple(idxs) + (i,)) for i in range(len(ft))]
    return SRef(ref.g, ref.lo + lo, w, ft, ref.sliced)

  def new_virtual(self, w):
    g = len(self.signals)
    self.signals.append({'idx': g, 'path': f'$v{g - self.n_real}', 'width': w, 'kind': 'virtual', 'host': '', 'top_port': False,
                         'type': f'Bits{w}', 'virtual': True})
    return g

  def new_id(self):
    self._next_id += 1
    return self._next_id - 1

  # ------------------------------------------------------------------ driver
  def run(self):
    if self._done: return self
    top = self.top
    ffs = top.get_all_update_ff()
    ups = sorted(top.get_all_update_blocks(), key=lambda b: (natkey(repr(top.get_update_block_host_component(b))), b.__name__))
    for blk in ups:
      host = top.get_update_block_host_component(blk)
      self.blocks.append({'id': self.new_id(), 'kind': 'ff' if blk in ffs else 'comb', 'host': repr(host), 'name': blk.__name__,
                          'key': (repr(host), blk.__name__), '_fn': blk, '_host': host, 'asgs': [], 'virt': []})
    nets = []
    for writer, members in top.get_all_value_nets():
      if len(members) <= 1: continue
      readers = sorted([x for x in members if x is not writer], key=lambda x: natkey(repr(x)))
      nets.append((writer, readers))
    nets.sort(key=lambda n: natkey(repr(n[1][0])))
    for writer, readers in nets:
      self.blocks.append({'id': self.new_id(), 'kind': 'net', 'host': '', 'name': 'net:' + repr(writer), 'writer': repr(writer),
                          'key': frozenset(repr(x) for x in readers), 'asgs': self.net_asgs(writer, readers), 'virt': []})
    for b in self.blocks:
      if b['kind'] in ('comb', 'ff'):
        BlockTx(self, b).run()
    self.virtuals = [v for b in self.blocks for v in b['virt']]
    for b in self.blocks:
      self.notes['blocks'].append({'id': b['id'], 'kind': b['kind'], 'host': b['host'], 'name': b['name'],
                                   'virtual_blocks': [v['id'] for v in b['virt']], 'assignments': len(b['asgs'])})
    self._done = True
    return self

  def net_asgs(self, writer, readers):
    from pymtl3.dsl.Connectable import Const
    dt, is_bs, is_bsi = _dt()
    asgs = []
    if isinstance(writer, Const):
      v = writer._dsl.const
      v = int(v.to_bits()) if is_bsi(v) else int(v)
      for r in readers:
        ref = self.sigref(r)
        lo_ok = -(1 << (ref.w - 1)) if ref.w > 1 else -1
        if not (lo_ok <= v <= (1 << ref.w) - 1): raise Untranslatable('net', repr(writer), None, f'constant {v} does not fit {r!r}')
        asgs.append(((ref.g, ref.lo, ref.w), C(ref.w, v)))
      return asgs
    wref = self.sigref(writer)
    for r in readers:
      ref = self.sigref(r)
      if ref.w != wref.w: raise Untranslatable('net', repr(writer), None, f'width of {r!r} differs from the writer')
      asgs.append(((ref.g, ref.lo, ref.w), ('r', wref.g, wref.lo, wref.w)))
    return asgs

  # ------------------------------------------------------------------ results
  def widths(self): return [s['width'] for s in self.signals]

  def sexp(self):
    comb, ff = [], []
    def entry(b): return ('blk', b['id']) + tuple(('asg', t[0], t[1], t[2], e) for (t, e) in b['asgs'])
    for b in self.blocks:
      for v in b['virt']: comb.append(entry(v))
      (ff if b['kind'] == 'ff' else comb).append(entry(b))
    return ('design', ('widths',) + tuple(self.widths()), ('comb',) + tuple(comb), ('ff',) + tuple(ff))

  def comb_ids(self): return [b['id'] for b in self.blocks if b['kind'] in ('comb', 'net')]
  def ff_ids(self): return [b['id'] for b in self.blocks if b['kind'] == 'ff']

  def expand_order(self, ids):
    """a schedule of REAL comb block ids -> model order: every block preceded by its virtual blocks; the virtual blocks of
    ff blocks (they read settled comb values) at the end"""
    byid = {b['id']: b for b in self.blocks}
    out = []
    for i in ids:
      out += [v['id'] for v in byid[i]['virt']] + [i]
    return out + self.ff_virtual_ids()

  def ff_virtual_ids(self):
    return [v['id'] for b in self.blocks if b['kind'] == 'ff' for v in b['virt']]

  def footprints(self):
    """id -> (kind, reads, writes) over all model blocks (virtual ones included, kind 'comb')"""
    fp = {}
    for b in self.blocks:
      for x in [b] + b['virt']:
        rds = []
        for t, e in x['asgs']: expr_reads(e, rds)
        fp[x['id']] = ('ff' if x['kind'] == 'ff' else 'comb', rds, [t for t, _ in x['asgs']])
    return fp

def translate(top, **kw):
  """elaborated pure-RTL component -> (design S-expression, signal table, notes)"""
  tr = Translator(top, **kw).run()
  return tr.sexp(), tr.signals, tr.notes

# ---------------------------------------------------------------------------------------------------------------------
# symbolic execution of one update block
# ---------------------------------------------------------------------------------------------------------------------
BINOPS = {ast.Add: 'add', ast.Sub: 'sub', ast.Mult: 'mul', ast.BitAnd: 'and', ast.BitOr: 'or', ast.BitXor: 'xor',
          ast.LShift: 'shl', ast.RShift: 'shr'}
PYBIN = {'add': operator.add, 'sub': operator.sub, 'mul': operator.mul, 'and': operator.and_, 'or': operator.or_,
         'xor': operator.xor, 'shl': operator.lshift, 'shr': operator.rshift, 'eq': operator.eq, 'ne': operator.ne,
         'lt': operator.lt, 'le': operator.le, 'gt': operator.gt, 'ge': operator.ge,
         'floordiv': operator.floordiv, 'mod': operator.mod, 'pow': operator.pow}
CMPOPS = {ast.Eq: 'eq', ast.NotEq: 'ne', ast.Lt: 'lt', ast.LtE: 'le', ast.Gt: 'gt', ast.GtE: 'ge'}
SWAP = {'eq': 'eq', 'ne': 'ne', 'lt': 'gt', 'le': 'ge', 'gt': 'lt', 'ge': 'le'}

class BlockTx:
  def __init__(self, tr, b):
    self.tr, self.b = tr, b
    self.fn, self.host = b['_fn'], b['_host']
    self.is_ff = b['kind'] == 'ff'
    self.cur = None

  def bad(self, node, why):
    return Untranslatable(self.b['host'], self.b['name'], node if node is not None else self.cur, why)

  # ------------------------------------------------------------------ entry
  def run(self):
    fn = self.fn
    info = self.host.get_update_block_info(fn)
    if info is not None and info[0]:
      tree = info[4]                                   # the AST pymtl3 built for `x //= lambda: ...`
    else:
      try: src = textwrap.dedent(inspect.getsource(fn))
      except (OSError, TypeError) as e: raise self.bad(None, f'no source: {e}')
      tree = ast.parse(src)
    fdef = tree.body[0]
    if not isinstance(fdef, ast.FunctionDef) or fdef.args.args:
      raise self.bad(fdef, 'update block is not a plain zero-argument function')
    self.closure = {}
    for name, cell in zip(fn.__code__.co_freevars, fn.__closure__ or ()):
      try: self.closure[name] = cell.cell_contents
      except ValueError: pass
    self.st = Store()
    self.exec_body(fdef.body)
    asgs = []
    for g in sorted(self.st.sig):
      for (lo, w, e) in self.st.sig[g]: asgs.append(((g, lo, w), e))
    for x in self.b['virt'] + [{'asgs': asgs}]:
      for t, e in x['asgs']:
        try: ok = ewidth(e) == t[2]
        except ValueError: ok = False
        if not ok: raise self.bad(None, f'internal error of the translator: expression width differs from its target {t}')
    total = sum(esize(e) for _, e in asgs) + sum(esize(e) for v in self.b['virt'] for _, e in v['asgs'])
    if total > self.tr.max_nodes: raise self.bad(None, f'translated block has {total} expression nodes')
    # parallel -> sequential: an assignment that reads a range must come before the assignment that writes it
    writes = [t for t, _ in asgs]
    reads = [expr_reads(e, []) for _, e in asgs]
    self_read = any(overlap(r, t) for rs in reads for r in rs for t in writes) or \
                any(overlap(r, t) for v in self.b['virt'] for _, e in v['asgs'] for r in expr_reads(e, []) for t in writes)
    if self_read:
      self.tr.notes['self_read'].append(f"{self.b['host']}:{self.b['name']}")
      if not self.is_ff:
        self.tr.notes['holds'].append(f"{self.b['host']}:{self.b['name']}")
        asgs = self.sequentialise(asgs, reads)
    self.b['asgs'] = asgs

  def sequentialise(self, asgs, reads):
    n = len(asgs)
    before = {i: set() for i in range(n)}          # before[j] = assignments that must precede j
    for i in range(n):
      for j in range(n):
        if i != j and any(overlap(r, asgs[j][0]) for r in reads[i]): before[j].add(i)
    order, done = [], set()
    while len(order) < n:
      ready = [j for j in range(n) if j not in done and before[j] <= done]
      if not ready: raise self.bad(None, 'assignments of this block read each other\'s targets cyclically (needs a temporary)')
      order.append(ready[0]); done.add(ready[0])
    return [asgs[i] for i in order]

  # ------------------------------------------------------------------ lifting (sharing)
  def lift(self, v, limit=None):
    """bind a large value to a virtual wire"""
    if not isinstance(v, Sym) or self.tr.lift_at is None: return v
    if esize(v.e) <= (self.tr.lift_at if limit is None else limit): return v
    g = self.tr.new_virtual(v.w)
    # virtual ids live above all real ids: 1_000_000 + running number (deterministic: the translation order is fixed)
    vid = 1000000 + self.tr._virt_count
    self.tr._virt_count += 1
    self.b['virt'].append({'id': vid, 'kind': 'virtual', 'host': self.b['host'], 'name': f"{self.b['name']}${len(self.b['virt'])}",
                           'asgs': [((g, 0, v.w), v.e)], 'virt': []})
    self.tr.notes['lifted'] += 1
    return Sym(v.w, ('r', g, 0, v.w), v.T)

  # ------------------------------------------------------------------ statements
  def exec_body(self, body):
    for s in body: self.exec(s)

  def exec(self, n):
    self.cur = n
    if isinstance(n, ast.Pass): return
    if isinstance(n, ast.Expr):
      if isinstance(n.value, ast.Constant) and isinstance(n.value.value, str): return
      raise self.bad(n, 'expression statement')
    if isinstance(n, ast.Assign):
      if len(n.targets) != 1 or not isinstance(n.targets[0], ast.Name):
        raise self.bad(n, 'plain assignment to something that is not a local name')
      v = self.eval(n.value)
      if isinstance(v, SRef) and v.sliced: v = self.rv(v, n)        # a slice is a fresh Bits object: snapshot
      self.st.alias.pop(n.targets[0].id, None)
      if isinstance(v, Choice):
        # the real local is the selected Bits object itself; we keep its value: a later write to one of the candidates
        # (in this block) would be visible through the real alias, so that poisons the local (see assign)
        rs = self.choice_ranges(v)
        if rs and not self.is_ff: self.st.alias[n.targets[0].id] = rs
        v = self.rv(v, n)
      self.st.tmp[n.targets[0].id] = self.lift(v)
      return
    if isinstance(n, ast.AugAssign):
      if isinstance(n.op, (ast.MatMult, ast.LShift)) and not isinstance(n.target, ast.Name):
        if isinstance(n.op, ast.MatMult) and self.is_ff: raise self.bad(n, '@= on a signal inside update_ff')
        if isinstance(n.op, ast.LShift) and not self.is_ff: raise self.bad(n, '<<= on a signal inside update')
        tgt = self.eval(n.target)
        val = self.rv(self.eval(n.value), n)
        self.assign(tgt, val, None, n)
        return
      if isinstance(n.target, ast.Name) and type(n.op) in BINOPS and not isinstance(n.op, ast.LShift):
        cur = self.rv(self.eval(ast.Name(id=n.target.id, ctx=ast.Load())), n)
        self.st.tmp[n.target.id] = self.lift(self.binop(BINOPS[type(n.op)], cur, self.rv(self.eval(n.value), n), n))
        return
      raise self.bad(n, 'augmented assignment')
    if isinstance(n, ast.If):
      kind, c = self.truth(self.eval(n.test), n.test)
      if kind == 'static':
        self.exec_body(n.body if c else n.orelse)
        return
      c = self.lift(c, 8).e
      base = self.st
      self.st = base.copy(); self.exec_body(n.body); A = self.st          # (a nested if replaces self.st)
      self.st = base.copy(); self.exec_body(n.orelse); B = self.st
      self.st = self.merge(c, A, B, n)
      return
    if isinstance(n, ast.For):
      if n.orelse or not isinstance(n.target, ast.Name): raise self.bad(n, 'for loop shape')
      it = self.eval(n.iter)
      if not isinstance(it, (range, list, tuple)): raise self.bad(n.iter, 'loop over something that is not a constant range / list')
      if len(it) > 4096: raise self.bad(n.iter, 'loop too long to unroll')
      for x in it:
        self.st.tmp[n.target.id] = self.wrap(x)
        self.exec_body(n.body)
      return
    raise self.bad(n, f'statement {type(n).__name__}')

  def choice_ranges(self, v):
    out = []
    for a in v.alts:
      if isinstance(a, Choice): out += self.choice_ranges(a)
      elif isinstance(a, SRef) and not a.sliced: out.append((a.g, a.lo, a.w))
    return out

  def merge(self, c, A, B, node):
    out = Store()
    for S in (A, B):
      for k, rs in S.alias.items(): out.alias[k] = out.alias.get(k, []) + rs
    for g in sorted(set(A.sig) | set(B.sig)):
      cuts = sorted({x for S in (A, B) for (l, w, _) in S.sig.get(g, []) for x in (l, l + w)})
      segs = []
      for a, b in zip(cuts, cuts[1:]):
        if not (A.covered(g, a, b) or B.covered(g, a, b)): continue
        va, vb = A.read(g, a, b - a), B.read(g, a, b - a)
        segs.append((a, b - a, self.lift(Sym(b - a, mk_mux(c, va, vb))).e))
      out.sig[g] = segs
    for name in list(A.tmp) + [k for k in B.tmp if k not in A.tmp]:
      if name in A.tmp and name in B.tmp:
        va, vb = A.tmp[name], B.tmp[name]
        if va is vb: out.tmp[name] = va; continue
        if isinstance(va, SRef) or isinstance(vb, SRef):
          out.tmp[name] = Poison(f'local {name!r} aliases different signals after this if'); continue
        try:
          out.tmp[name] = self.lift(self.mux_values(c, self.rv(va, node), self.rv(vb, node), node))
        except Untranslatable as e:
          out.tmp[name] = Poison(f'local {name!r} has different non-mergeable values after this if: {e.why}')
      else:
        out.tmp[name] = A.tmp.get(name, B.tmp.get(name))      # bound on one path only: legal uses are on that path
    return out

  # ------------------------------------------------------------------ assignment
  def assign(self, tgt, val, cond, node):
    if isinstance(tgt, Choice):
      idx = tgt.idx
      n = len(tgt.alts)
      if n < (1 << idx.w): self.guard(idx, n)
      for i, alt in enumerate(tgt.alts):
        if i >= (1 << idx.w): break
        ci = mk_bin('eq', idx.w, idx.e, C(idx.w, i))
        self.assign(alt, val, ci if cond is None else mk_bin('and', 1, cond, ci), node)
      return
    if not isinstance(tgt, SRef): raise self.bad(node, 'assignment target is not a signal')
    dt, is_bs, _ = _dt()
    if self.is_ff and tgt.sliced:
      raise self.bad(node, '<<= on a bit slice (PythonBits writes the sliced copy\'s _next; the model assigns whole signals / fields)')
    e = self.coerce_assign(val, tgt.w, node, struct=is_bs(tgt.T))
    if cond is not None:
      e = mk_mux(cond, e, self.st.read(tgt.g, tgt.lo, tgt.w))
    e = self.lift(Sym(tgt.w, e)).e
    self.st.write(tgt.g, tgt.lo, tgt.w, e)
    for name, rs in list(self.st.alias.items()):
      if any(overlap(r, (tgt.g, tgt.lo, tgt.w)) for r in rs):
        self.st.tmp[name] = Poison(f'local {name!r} is the Bits object selected by a variable index and one of the candidates is written afterwards')
        del self.st.alias[name]

  def coerce_assign(self, v, w, node, struct=False):
    """value stored by `@=` / `<<=` / `BitsN(v)` into w bits"""
    if isinstance(v, Sym):
      if v.w != w: raise self.bad(node, f'Bits{v.w} value assigned to {w} bits (the real code raises)')
      return v.e
    if struct: raise self.bad(node, 'int assigned to a bitstruct signal')
    lo = -(1 << (w - 1)) if w > 1 else -1
    up = (1 << w) - 1
    if isinstance(v, (int, bool)):
      v = int(v)
      if not (lo <= v <= up): raise self.bad(node, f'int {v} does not fit Bits{w} (the real code raises)')
      return C(w, v)
    if isinstance(v, SInt):
      def go(t):
        if t[0] == 'k':
          if not (lo <= t[1] <= up): raise self.bad(node, f'int {t[1]} does not fit Bits{w}')
          return C(w, t[1])
        return mk_mux(t[1], go(t[2]), go(t[3]))
      return go(v.t)
    raise self.bad(node, f'cannot assign a {type(v).__name__}')

  def guard(self, idx, n):
    self.tr.notes['index_guards'].append({'block': f"{self.b['host']}:{self.b['name']}", 'index_width': idx.w, 'length': n,
                                          'index_reads': sorted(set(expr_reads(idx.e, [])))})

  # ------------------------------------------------------------------ values
  def wrap(self, obj):
    from pymtl3.dsl.Connectable import Signal
    if isinstance(obj, Signal):
      try: return self.tr.sigref(obj)
      except (KeyError, ValueError, IndexError) as e: raise self.bad(None, str(e))
    return obj

  def rv(self, v, node):
    """r-value: Sym | int | SInt | other translate-time Python object"""
    dt, is_bs, is_bsi = _dt()
    if isinstance(v, Sym): return v
    if isinstance(v, SRef):
      e = ('r', v.g, v.lo, v.w) if self.is_ff else self.st.read(v.g, v.lo, v.w)
      return Sym(v.w, e, v.T if is_bs(v.T) else None)
    if isinstance(v, Choice):
      idx = v.idx
      n = len(v.alts)
      if n == 0: raise self.bad(node, 'index into an empty list')
      vals = [self.rv(a, node) for a in v.alts][:1 << idx.w]
      if n < (1 << idx.w):
        self.guard(idx, n)
        syms = [x for x in vals if isinstance(x, Sym)]
        acc = Sym(syms[0].w, C(syms[0].w, 0), syms[0].T) if syms else 0        # never selected by a run that does not raise
        rest = vals
      else:
        acc, rest = vals[-1], vals[:-1]
      for i in range(len(rest) - 1, -1, -1):
        acc = self.mux_values(mk_bin('eq', idx.w, idx.e, C(idx.w, i)), rest[i], acc, node)
      return acc
    if isinstance(v, Poison): raise self.bad(node, v.why)
    if isinstance(v, bool): return int(v)
    if isinstance(v, dt.Bits): return Sym(int(v.nbits), C(int(v.nbits), int(v)))
    if is_bsi(v):
      b = v.to_bits()
      return Sym(int(b.nbits), C(int(b.nbits), int(b)), type(v))
    return v

  def truth(self, v, node):
    v = self.rv(v, node)
    if isinstance(v, Sym):
      if v.T is not None: raise self.bad(node, 'truth value of a bitstruct (always True in the real code)')
      if v.e[0] == 'c': return 'static', v.e[2] != 0
      return 'dyn', v
    if isinstance(v, SInt): raise self.bad(node, 'truth value of a signal-dependent int')
    if isinstance(v, SYMBOLIC): raise self.bad(node, 'truth value')
    try: return 'static', bool(v)
    except Exception as e: raise self.bad(node, f'truth value: {e}')

  def mux_values(self, c, a, b, node):
    if isinstance(a, Sym) and isinstance(b, Sym):
      if a.w != b.w: raise self.bad(node, f'branches of different widths Bits{a.w} / Bits{b.w}')
      return Sym(a.w, mk_mux(c, a.e, b.e), a.T if a.T is b.T else None)
    if isinstance(a, Sym) or isinstance(b, Sym):
      s, o, flip = (a, b, False) if isinstance(a, Sym) else (b, a, True)
      oe = self.int_operand(o, s.w, node)
      return Sym(s.w, mk_mux(c, oe, s.e) if flip else mk_mux(c, s.e, oe), s.T)
    ta = a.t if isinstance(a, SInt) else ('k', int(a)) if isinstance(a, (int, bool)) else None
    tb = b.t if isinstance(b, SInt) else ('k', int(b)) if isinstance(b, (int, bool)) else None
    if ta is None or tb is None: raise self.bad(node, 'conditional value that is neither Bits nor int')
    if ta == tb: return a
    return SInt(('m', c, ta, tb))

  def int_operand(self, v, w, node):
    """an int (or signal-dependent int) meeting a Bits{w} in a binary operation: 0 <= v <= 2^w-1 or the real code raises"""
    up = (1 << w) - 1
    if isinstance(v, (int, bool)):
      v = int(v)
      if not (0 <= v <= up): raise self.bad(node, f'int {v} is not a valid operand with Bits{w} (the real code raises)')
      return C(w, v)
    if isinstance(v, SInt):
      def go(t):
        if t[0] == 'k':
          if not (0 <= t[1] <= up): raise self.bad(node, f'int {t[1]} is not a valid operand with Bits{w}')
          return C(w, t[1])
        return mk_mux(t[1], go(t[2]), go(t[3]))
      return go(v.t)
    raise self.bad(node, f'operand of type {type(v).__name__}')

  def binop(self, op, l, r, node):
    ls, rs = isinstance(l, Sym), isinstance(r, Sym)
    if not ls and not rs:
      if isinstance(l, SInt) or isinstance(r, SInt): raise self.bad(node, 'arithmetic on signal-dependent ints')
      if isinstance(l, SYMBOLIC) or isinstance(r, SYMBOLIC): raise self.bad(node, 'operand')
      try: return self.wrap(PYBIN[op](l, r))
      except Exception as e: raise self.bad(node, f'{type(e).__name__}: {e}')
    if op not in BINOPS.values() and op not in CMPS: raise self.bad(node, f'operator {op} on Bits')
    lt, rt_ = getattr(l, 'T', None), getattr(r, 'T', None)
    if lt is not None or rt_ is not None:
      if not (op in ('eq', 'ne') and lt is rt_): raise self.bad(node, f'operator {op} on bitstruct values')
    if ls and rs:
      if l.w != r.w: raise self.bad(node, f'operands Bits{l.w} and Bits{r.w} (the real code raises)')
      return Sym(1 if op in CMPS else l.w, mk_bin(op, l.w, l.e, r.e))
    if ls:
      return Sym(1 if op in CMPS else l.w, mk_bin(op, l.w, l.e, self.int_operand(r, l.w, node)))
    # int <op> Bits: the reflected methods of PythonBits
    k = self.int_operand(l, r.w, node)
    if op in ('add', 'mul', 'and', 'or', 'xor'): return Sym(r.w, mk_bin(op, r.w, k, r.e))
    if op == 'sub': return Sym(r.w, mk_bin('sub', r.w, k, r.e))
    if op in CMPS: return Sym(1, mk_bin(SWAP[op], r.w, r.e, k))
    raise self.bad(node, f'int {op} Bits is a TypeError in the real code')

  # ------------------------------------------------------------------ expressions
  def lookup(self, name, node):
    if name in self.st.tmp:
      v = self.st.tmp[name]
      if isinstance(v, Poison): raise self.bad(node, v.why)
      return v
    if name in self.closure: return self.wrap(self.closure[name])
    g = self.fn.__globals__
    if name in g: return self.wrap(g[name])
    if hasattr(builtins, name): return getattr(builtins, name)
    raise self.bad(node, f'unresolved name {name!r}')

  def eval(self, n):
    dt, is_bs, is_bsi = _dt()
    if isinstance(n, ast.Constant):
      if isinstance(n.value, (int, bool)): return n.value
      raise self.bad(n, f'constant {n.value!r}')
    if isinstance(n, ast.Name): return self.lookup(n.id, n)
    if isinstance(n, ast.Attribute): return self.attr(self.eval(n.value), n.attr, n)
    if isinstance(n, ast.Subscript):
      base = self.eval(n.value)
      if isinstance(n.slice, ast.Slice):
        if n.slice.step is not None: raise self.bad(n, 'slice step')
        lo = None if n.slice.lower is None else self.const_int(self.eval(n.slice.lower), n)
        hi = None if n.slice.upper is None else self.const_int(self.eval(n.slice.upper), n)
        idx = slice(lo, hi)
      else:
        idx = self.eval(n.slice)
      return self.index(base, idx, n)
    if isinstance(n, ast.BinOp):
      l, r = self.rv(self.eval(n.left), n), self.rv(self.eval(n.right), n)
      op = BINOPS.get(type(n.op)) or {ast.FloorDiv: 'floordiv', ast.Mod: 'mod', ast.Pow: 'pow'}.get(type(n.op))
      if op is None: raise self.bad(n, f'operator {type(n.op).__name__}')
      return self.binop(op, l, r, n)
    if isinstance(n, ast.Compare):
      if len(n.ops) != 1: raise self.bad(n, 'chained comparison')
      op = CMPOPS.get(type(n.ops[0]))
      if op is None: raise self.bad(n, f'comparison {type(n.ops[0]).__name__}')
      return self.binop(op, self.rv(self.eval(n.left), n), self.rv(self.eval(n.comparators[0]), n), n)
    if isinstance(n, ast.UnaryOp):
      v = self.rv(self.eval(n.operand), n)
      if isinstance(n.op, ast.Invert):
        if isinstance(v, Sym): return Sym(v.w, mk_not(v.w, v.e))
        if isinstance(v, int): return ~v
      elif isinstance(n.op, ast.Not):
        if isinstance(v, Sym): return Sym(1, mk_bin('eq', v.w, v.e, C(v.w, 0)))
        if isinstance(v, int): return int(not v)
      elif isinstance(n.op, (ast.USub, ast.UAdd)):
        if isinstance(v, int) and not isinstance(v, SYMBOLIC): return -v if isinstance(n.op, ast.USub) else v
      raise self.bad(n, f'unary {type(n.op).__name__} on {type(v).__name__}')
    if isinstance(n, ast.BoolOp):
      vals = [self.rv(self.eval(x), n) for x in n.values]
      if not any(isinstance(v, SYMBOLIC) for v in vals):
        acc = vals[0]
        for v in vals[1:]: acc = (acc and v) if isinstance(n.op, ast.And) else (acc or v)
        return acc
      # `a and b` returns an operand; for 1-bit operands that equals a & b / a | b
      es = []
      for v in vals:
        if isinstance(v, Sym) and v.w == 1: es.append(v.e)
        elif isinstance(v, (int, bool)) and int(v) in (0, 1): es.append(C(1, int(v)))
        else: raise self.bad(n, 'and/or over operands that are not 1 bit wide')
      acc = es[0]
      for e in es[1:]: acc = mk_bin('and' if isinstance(n.op, ast.And) else 'or', 1, acc, e)
      return Sym(1, acc)
    if isinstance(n, ast.IfExp):
      kind, c = self.truth(self.eval(n.test), n.test)
      if kind == 'static': return self.eval(n.body if c else n.orelse)
      c = self.lift(c, 8).e
      return self.mux_values(c, self.rv(self.eval(n.body), n), self.rv(self.eval(n.orelse), n), n)
    if isinstance(n, ast.Call): return self.call(n)
    if isinstance(n, (ast.List, ast.Tuple)): return [self.eval(x) for x in n.elts]
    raise self.bad(n, f'expression {type(n).__name__}')

  def const_int(self, v, node):
    dt, _, _ = _dt()
    if isinstance(v, bool): return int(v)
    if isinstance(v, int): return v
    if isinstance(v, dt.Bits): return int(v)
    v = self.rv(v, node)
    if isinstance(v, Sym) and v.e[0] == 'c': return v.e[2]
    raise self.bad(node, 'slice bound is not a translate-time constant')

  def attr(self, base, name, node):
    dt, is_bs, is_bsi = _dt()
    if isinstance(base, SRef):
      if name == 'nbits': return base.w
      if is_bs(base.T) and name in base.T.__bitstruct_fields__:
        try: return self.tr.ref_field(base, name)
        except ValueError as e: raise self.bad(node, str(e))
      raise self.bad(node, f'attribute {name!r} of a signal')
    if isinstance(base, Sym):
      if name == 'nbits': return base.w
      if base.T is not None and name in base.T.__bitstruct_fields__:
        return self.sym_field(base, name, (), node)
      raise self.bad(node, f'attribute {name!r} of a value')
    if isinstance(base, Choice): return Choice(base.idx, [self.attr(a, name, node) for a in base.alts])
    if isinstance(base, SYMBOLIC): raise self.bad(node, f'attribute of {type(base).__name__}')
    if isinstance(base, list): raise self.bad(node, f'attribute {name!r} of a list')
    try: return self.wrap(getattr(base, name))
    except AttributeError as e: raise self.bad(node, str(e))

  def sym_field(self, v, name, idxs, node):
    try: lo, w, ft = field_range(v.T, name, idxs)
    except ValueError as e: raise self.bad(node, str(e))
    if isinstance(ft, list): return [self.sym_field(v, name, tuple(idxs) + (i,), node) for i in range(len(ft))]
    _, is_bs, _ = _dt()
    return Sym(w, slice_expr(v.e, v.w, lo, w), ft if is_bs(ft) else None)

  def index(self, base, idx, node):
    dt, is_bs, is_bsi = _dt()
    if isinstance(base, Choice): return Choice(base.idx, [self.index(a, idx, node) for a in base.alts])
    if isinstance(idx, (SRef, Choice)): idx = self.rv(idx, node)
    if isinstance(idx, dt.Bits): idx = int(idx)
    if isinstance(idx, bool): idx = int(idx)
    if isinstance(idx, Sym) and idx.e[0] == 'c': idx = idx.e[2]
    if isinstance(idx, Sym): idx = self.lift(idx, 6)
    if isinstance(idx, (SInt, Poison)): raise self.bad(node, 'index is a signal-dependent int')
    if isinstance(base, (list, tuple)):
      if isinstance(idx, int):
        if not (-len(base) <= idx < len(base)): raise self.bad(node, f'index {idx} out of range')
        return self.wrap(base[idx])
      if isinstance(idx, slice): return [self.wrap(x) for x in base[idx]]
      if isinstance(idx, Sym): return Choice(idx, [self.wrap(x) for x in base])
      raise self.bad(node, 'list index')
    if isinstance(base, SRef):
      if is_bs(base.T): raise self.bad(node, 'subscript of a bitstruct signal')
      try:
        if isinstance(idx, int): return self.tr.ref_slice(base, idx, idx + 1)
        if isinstance(idx, slice):
          if idx.step is not None: raise self.bad(node, 'slice step')
          a = 0 if idx.start is None else int(idx.start)
          b = base.w if idx.stop is None else int(idx.stop)
          return self.tr.ref_slice(base, a, b)
      except (IndexError, ValueError) as e: raise self.bad(node, f'{e} (the real code raises)')
      if isinstance(idx, Sym): return Choice(idx, [self.tr.ref_slice(base, i, i + 1) for i in range(base.w)])
      raise self.bad(node, 'signal subscript')
    if isinstance(base, dt.Bits) and isinstance(idx, Sym): base = self.rv(base, node)
    if isinstance(base, Sym):
      if base.T is not None: raise self.bad(node, 'subscript of a bitstruct value')
      if isinstance(idx, int):
        if not (0 <= idx < base.w): raise self.bad(node, f'bit {idx} of Bits{base.w} (the real code raises)')
        return Sym(1, slice_expr(base.e, base.w, idx, 1))
      if isinstance(idx, slice):
        a = 0 if idx.start is None else int(idx.start)
        b = base.w if idx.stop is None else int(idx.stop)
        if idx.step is not None or not (0 <= a < b <= base.w): raise self.bad(node, f'slice [{a}:{b}] of Bits{base.w} (the real code raises)')
        return Sym(b - a, slice_expr(base.e, base.w, a, b - a))
      if isinstance(idx, Sym):
        if base.w < (1 << idx.w): self.guard(idx, base.w)
        b = self.lift(base, 6)
        return Sym(1, ('b', 'and', 1, ('b', 'shr', base.w, b.e, idx.e), C(1, 1)))
      raise self.bad(node, 'value subscript')
    if isinstance(base, SYMBOLIC) or isinstance(idx, SYMBOLIC): raise self.bad(node, 'subscript')
    try: return self.wrap(base[idx])
    except Exception as e: raise self.bad(node, f'{type(e).__name__}: {e}')

  # ------------------------------------------------------------------ calls
  def call(self, n):
    dt, is_bs, is_bsi = _dt()
    f = self.eval(n.func)
    if isinstance(f, SYMBOLIC): raise self.bad(n, 'call of a signal-dependent object')
    if any(isinstance(a, ast.Starred) for a in n.args) or any(k.arg is None for k in n.keywords):
      raise self.bad(n, '* / ** arguments')
    args = [self.eval(a) for a in n.args]
    kw = {k.arg: self.eval(k.value) for k in n.keywords}
    allv = args + list(kw.values())
    def sym_free(v):
      if isinstance(v, SYMBOLIC): return False
      if isinstance(v, (list, tuple)): return all(sym_free(x) for x in v)
      return True
    import pymtl3.datatypes.helpers as H
    pure = {range, len, int, bool, min, max, abs, sum, H.clog2, dt.mk_bits, dt.concat, dt.zext, dt.sext, dt.trunc,
            dt.reduce_and, dt.reduce_or, dt.reduce_xor, dt.Bits}
    is_bits_cls = isinstance(f, type) and issubclass(f, dt.Bits)
    is_struct_cls = isinstance(f, type) and is_bs(f)
    if all(sym_free(v) for v in allv):
      if f in pure or is_bits_cls or is_struct_cls:
        try: return self.wrap(f(*args, **kw))
        except Exception as e: raise self.bad(n, f'{type(e).__name__}: {e} (the real code raises)')
      raise self.bad(n, f'call of {getattr(f, "__name__", f)!r} (not a known pure function)')
    if kw and not is_struct_cls: raise self.bad(n, 'keyword arguments')
    vals = [self.rv(a, n) for a in args]
    if f is dt.concat:
      acc = None
      for v in vals:
        if not isinstance(v, Sym) or v.T is not None: raise self.bad(n, 'concat of a non-Bits value (the real code raises)')
        acc = v if acc is None else Sym(acc.w + v.w, mk_cat(acc.e, v.w, v.e))
      if acc is None: raise self.bad(n, 'empty concat')
      return Sym(acc.w, acc.e)
    if f in (dt.zext, dt.sext, dt.trunc):
      if len(vals) != 2 or not isinstance(vals[0], Sym): raise self.bad(n, f'{f.__name__} arguments')
      v, nw = vals[0], vals[1]
      if isinstance(nw, type) and issubclass(nw, dt.Bits): nw = int(nw.nbits)
      if not isinstance(nw, int) or isinstance(nw, bool) or nw < 1: raise self.bad(n, 'new width is not a constant')
      if v.T is not None: raise self.bad(n, f'{f.__name__} of a bitstruct')
      if f is dt.trunc:
        if nw > v.w: raise self.bad(n, f'trunc to {nw} of Bits{v.w} (the real code raises)')
        return Sym(nw, slice_expr(v.e, v.w, 0, nw))
      if nw < v.w: raise self.bad(n, f'extension to {nw} of Bits{v.w} (the real code raises)')
      if nw == v.w: return Sym(nw, v.e)
      if f is dt.zext: return Sym(nw, mk_cat(C(nw - v.w, 0), v.w, v.e))
      v = self.lift(v, 8)
      sign = slice_expr(v.e, v.w, v.w - 1, 1)
      ext = nw - v.w
      return Sym(nw, mk_cat(mk_mux(sign, C(ext, (1 << ext) - 1), C(ext, 0)), v.w, v.e))
    if f in (dt.reduce_and, dt.reduce_or, dt.reduce_xor):
      if len(vals) != 1 or not isinstance(vals[0], Sym): raise self.bad(n, f'{f.__name__} argument (the real code raises on int)')
      v = vals[0]
      if f is dt.reduce_and: return Sym(1, mk_bin('eq', v.w, v.e, C(v.w, (1 << v.w) - 1)))
      if f is dt.reduce_or: return Sym(1, mk_bin('ne', v.w, v.e, C(v.w, 0)))
      v = self.lift(v, 4)
      acc = slice_expr(v.e, v.w, 0, 1)
      for i in range(1, v.w): acc = mk_bin('xor', 1, acc, slice_expr(v.e, v.w, i, 1))
      return Sym(1, acc)
    if f is dt.Bits:
      if len(vals) != 2 or not isinstance(vals[0], int): raise self.bad(n, 'Bits(n, v) arguments')
      return Sym(vals[0], self.coerce_assign(vals[1], vals[0], n))
    if is_bits_cls:
      if len(vals) != 1: raise self.bad(n, 'cast arguments')
      w = int(f.nbits)
      if isinstance(vals[0], Sym) and vals[0].T is not None: raise self.bad(n, 'Bits cast of a bitstruct')
      return Sym(w, self.coerce_assign(vals[0], w, n))
    if is_struct_cls:
      fields = list(f.__bitstruct_fields__.items())
      if len(args) > len(fields): raise self.bad(n, 'too many bitstruct arguments')
      given = dict(zip([k for k, _ in fields], args))
      for k, v in kw.items():
        if k in given or k not in f.__bitstruct_fields__: raise self.bad(n, f'bitstruct argument {k!r}')
        given[k] = v
      W = int(f.nbits)
      parts = []
      def place(name, ft, idxs, v):
        if isinstance(ft, list):
          if v is not None and not (isinstance(v, (list, tuple)) and len(v) == len(ft)):
            raise self.bad(n, f'field {name} needs a list of {len(ft)} values')
          for i, sub in enumerate(ft): place(name, sub, idxs + (i,), None if v is None else v[i])
          return
        lo, w, _ = field_range(f, name, idxs)
        if v is None: e = C(w, 0)
        else:
          v = self.rv(v, n)
          if is_bs(ft):
            if not (isinstance(v, Sym) and v.T is ft): raise self.bad(n, f'field {name} needs a {ft.__name__}')
            e = v.e
          else: e = self.coerce_assign(v, w, n)
        parts.append((lo, w, e))
      for name, ft in fields: place(name, ft, (), given.get(name))
      parts.sort()
      pos = 0
      for lo, w, _ in parts:
        if lo != pos: raise self.bad(n, 'bitstruct layout has gaps')
        pos += w
      if pos != W: raise self.bad(n, 'bitstruct layout does not cover the value')
      acc = parts[-1][2]
      for lo, w, e in reversed(parts[:-1]): acc = mk_cat(acc, w, e)
      return Sym(W, acc, f)
    raise self.bad(n, f'call of {getattr(f, "__name__", f)!r} on signal values')
