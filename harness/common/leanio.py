"""Line protocol to the Lean driver (`pv_<handler>` executables) and build/audit helpers.

The model side of every correspondence check goes through `Driver.batch(lines)`: all request
lines of a run are written to the driver's stdin, one reply line per request comes back.
"""
import os, re, subprocess, sys, time

VERIF = os.path.dirname(os.path.dirname(os.path.dirname(os.path.abspath(__file__))))
LEAN_DIR = os.path.join(VERIF, 'lean')
BIN_DIR = os.path.join(LEAN_DIR, '.lake', 'build', 'bin')

def driver_path(handler):
  return os.path.join(BIN_DIR, 'pv_' + handler)
ALLOWED_AXIOMS = {'propext', 'Classical.choice', 'Quot.sound'}

class InfraError(Exception):
  """Something prevented a check from reaching a verdict.  Raised by the machinery itself (drivers, protocol, build,
  time-outs: `MachineryError`, exit status 2) or by a check's harness when the implementation or a generator does something
  the harness cannot work with (then check.run_check turns it into a broken correspondence: the property is no longer
  shown to hold on this tree)."""

class MachineryError(InfraError):
  """drivers, protocol, build, time-outs: never a verdict (exit status 2)"""

def sexp(x):
  """Encode ints / strings / bools / None / nested lists+tuples as an S-expression."""
  if x is None: return 'none'
  if x is True: return '1'
  if x is False: return '0'
  if isinstance(x, int): return str(x)
  if isinstance(x, str):
    assert x and not re.search(r'[\s()]', x), f'bad atom {x!r}'
    return x
  if isinstance(x, (list, tuple)):
    return '(' + ' '.join(sexp(y) for y in x) + ')'
  raise TypeError(f'cannot encode {type(x)}')

def line(handler, *args):
  return handler + ''.join(' ' + sexp(a) for a in args)

def parse_sexp(s):
  """Inverse of sexp for driver replies that are S-expressions: returns nested lists of str."""
  toks = re.findall(r'\(|\)|[^\s()]+', s)
  stack, cur = [], []
  for t in toks:
    if t == '(':
      stack.append(cur); cur = []
    elif t == ')':
      if not stack: raise MachineryError(f'unbalanced reply {s!r}')
      parent = stack.pop(); parent.append(cur); cur = parent
    else:
      cur.append(t)
  if stack: raise MachineryError(f'unbalanced reply {s!r}')
  return cur

def lake_build(targets, timeout=3000):
  """Build the given lake targets. Returns (ok, output)."""
  t0 = time.time()
  r = subprocess.run(['lake', 'build'] + list(targets), cwd=LEAN_DIR, stdout=subprocess.PIPE,
                     stderr=subprocess.STDOUT, text=True, timeout=timeout)
  return r.returncode == 0, r.stdout, time.time() - t0

class Driver:
  """One native driver executable per handler family: `pv_<handler>`; request lines start with
  the handler name (use `line(handler, ...)`)."""
  def __init__(self, handler):
    self.handler = handler
    self.path = driver_path(handler)
    if not os.path.exists(self.path):
      raise MachineryError(f'{self.path} missing (run MANIFEST.setup_cmd)')
    self.calls = 0
    self.lines = 0

  def batch(self, lines, timeout=3000):
    """Send all lines, return the reply lines (same length). `bad-op` replies raise InfraError."""
    if not lines: return []
    data = '\n'.join(lines) + '\n'
    r = subprocess.run([self.path], input=data, stdout=subprocess.PIPE, stderr=subprocess.PIPE,
                       text=True, timeout=timeout)
    if r.returncode != 0:
      raise MachineryError(f'{self.handler} driver exit {r.returncode}: {r.stderr[-2000:]}')
    out = r.stdout.split('\n')
    if out and out[-1] == '': out.pop()
    if len(out) != len(lines):
      raise MachineryError(f'{self.handler} driver returned {len(out)} lines for {len(lines)} requests; stderr={r.stderr[-500:]}')
    for req, rep in zip(lines, out):
      if rep == 'bad-op':
        raise MachineryError(f'{self.handler} driver rejected request: {req[:300]}')
    self.calls += 1; self.lines += len(lines)
    return out

FORBIDDEN = re.compile(r'\bsorry\b|\badmit\b|^\s*axiom\s|native_decide|bv_decide|implemented_by|\bunsafe\s|maxHeartbeats\s+0|@\[extern|reduceBool|ofReduceBool')

def strip_comments(src):
  """Remove Lean line comments and (nested) block comments, keep line structure."""
  out, i, n, depth = [], 0, len(src), 0
  while i < n:
    if src.startswith('/-', i):
      depth += 1; i += 2; continue
    if depth and src.startswith('-/', i):
      depth -= 1; i += 2; continue
    if depth:
      if src[i] == '\n': out.append('\n')
      i += 1; continue
    if src.startswith('--', i):
      while i < n and src[i] != '\n': i += 1
      continue
    out.append(src[i]); i += 1
  return ''.join(out)

def forbidden_scan(files):
  hits = []
  for f in files:
    try: src = open(f).read()
    except OSError: continue
    code = strip_comments(src)
    for ln, text in enumerate(code.split('\n'), 1):
      if FORBIDDEN.search(text):
        hits.append(f'{os.path.relpath(f, VERIF)}:{ln}: {text.strip()[:120]}')
  return hits

def import_closure(module):
  """Files of the PymtlVerif library reachable from `module` through imports."""
  seen, todo = {}, [module]
  while todo:
    m = todo.pop()
    if m in seen or not m.startswith('PymtlVerif'): continue
    path = os.path.join(LEAN_DIR, *m.split('.')) + '.lean'
    if not os.path.exists(path): continue
    seen[m] = path
    for mm in re.findall(r'^\s*(?:public\s+)?import\s+([A-Za-z0-9_.]+)', open(path).read(), re.M):
      todo.append(mm)
  return seen

def audit(module, theorems, workdir):
  """Check that every theorem exists in `module` and depends only on the standard axioms.
  Returns dict name -> {'ok': bool, 'axioms': [...], 'msg': str}."""
  os.makedirs(workdir, exist_ok=True)
  path = os.path.join(workdir, 'Audit_' + module.replace('.', '_') + '.lean')
  with open(path, 'w') as f:
    f.write(f'import {module}\n')
    for t in theorems:
      f.write(f'#print axioms {t}\n')
  r = subprocess.run(['lake', 'env', 'lean', path], cwd=LEAN_DIR, stdout=subprocess.PIPE,
                     stderr=subprocess.STDOUT, text=True, timeout=1800)
  text = r.stdout
  res = {}
  for t in theorems:
    res[t] = {'ok': False, 'axioms': None, 'msg': 'no #print axioms output'}
  # outputs look like: "'Name' depends on axioms: [a, b]" or "'Name' does not depend on any axioms"
  for m in re.finditer(r"'([^']+)' depends on axioms: \[([^\]]*)\]", text, re.S):
    name = m.group(1); axs = [a.strip() for a in m.group(2).replace('\n', ' ').split(',') if a.strip()]
    if name in res:
      bad = [a for a in axs if a not in ALLOWED_AXIOMS]
      res[name] = {'ok': not bad, 'axioms': axs, 'msg': '' if not bad else f'non-standard axioms {bad}'}
  for m in re.finditer(r"'([^']+)' does not depend on any axioms", text):
    if m.group(1) in res:
      res[m.group(1)] = {'ok': True, 'axioms': [], 'msg': ''}
  for t in theorems:
    if res[t]['axioms'] is None:
      mm = re.search(r'[^\n]*(?:unknown (?:constant|identifier))[^\n]*' + re.escape(t.split('.')[-1]) + r'[^\n]*', text)
      res[t]['msg'] = mm.group(0)[:300] if mm else ('lean output: ' + text[-400:])
  return res, text
