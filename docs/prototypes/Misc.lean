/- Prototype: slices (C05), instruction field round trip (C20), VCD change compression (C16) -/
namespace Misc

/-! ### C05: get/set slice on naturals -/
def getSlice (x lo hi : Nat) : Nat := (x / 2^lo) % 2^(hi - lo)
def setSlice (x lo hi v : Nat) : Nat := x % 2^lo + (v % 2^(hi-lo)) * 2^lo + (x / 2^hi) * 2^hi

theorem get_set (x lo hi v : Nat) (h : lo ≤ hi) :
    getSlice (setSlice x lo hi v) lo hi = v % 2^(hi-lo) := by
  unfold getSlice setSlice
  have hpow : 2^hi = 2^(hi-lo) * 2^lo := by rw [← Nat.pow_add]; congr 1; omega
  have hlt : x % 2^lo < 2^lo := Nat.mod_lt _ (Nat.two_pow_pos _)
  -- (r + a*L + q*(W*L)) / L = a + q*W   where r < L
  have e1 : (x % 2^lo + v % 2^(hi-lo) * 2^lo + x / 2^hi * 2^hi) / 2^lo
      = v % 2^(hi-lo) + x / 2^hi * 2^(hi-lo) := by
    rw [hpow, ← Nat.mul_assoc, Nat.add_assoc, ← Nat.add_mul,
        Nat.add_mul_div_right _ _ (Nat.two_pow_pos _), Nat.div_eq_of_lt hlt, Nat.zero_add]
  rw [e1, Nat.add_mul_mod_self_right, Nat.mod_mod]

theorem testBit_setSlice_low (x lo hi v i : Nat) (h : lo ≤ hi) (hi' : i < lo) :
    (setSlice x lo hi v).testBit i = x.testBit i := by
  unfold setSlice
  have hpow : 2^hi = 2^(hi-lo) * 2^lo := by rw [← Nat.pow_add]; congr 1; omega
  rw [hpow, ← Nat.mul_assoc, Nat.add_assoc, ← Nat.add_mul]
  -- low part + K * 2^lo
  rw [Nat.add_comm, Nat.mul_comm]
  rw [Nat.testBit_two_pow_mul_add _ (Nat.mod_lt _ (Nat.two_pow_pos _))]
  simp [hi', Nat.testBit_mod_two_pow]

/-! ### C20: R-type encode/decode with plain arithmetic -/
def encR (f7 rs2 rs1 f3 rd opc : Nat) : Nat :=
  f7 * 2^25 + rs2 * 2^20 + rs1 * 2^15 + f3 * 2^12 + rd * 2^7 + opc

theorem decR (f7 rs2 rs1 f3 rd opc : Nat)
    (h7 : f7 < 128) (h2 : rs2 < 32) (h1 : rs1 < 32) (h3 : f3 < 8) (hd : rd < 32) (ho : opc < 128) :
    let x := encR f7 rs2 rs1 f3 rd opc
    x % 128 = opc ∧ (x / 2^7) % 32 = rd ∧ (x / 2^12) % 8 = f3 ∧ (x / 2^15) % 32 = rs1 ∧
    (x / 2^20) % 32 = rs2 ∧ (x / 2^25) % 128 = f7 ∧ x < 2^32 := by
  simp only [encR]
  refine ⟨?_, ?_, ?_, ?_, ?_, ?_, ?_⟩ <;> omega

/-! ### C16: change-compressed dump and replay -/
/-- one net: emit a value only when it differs from the last emitted one -/
def dump (last : Nat) : List Nat → List (Option Nat)
  | [] => []
  | v :: vs => if v = last then none :: dump last vs else some v :: dump v vs

def replay (cur : Nat) : List (Option Nat) → List Nat
  | [] => []
  | none :: es => cur :: replay cur es
  | some v :: es => v :: replay v es

theorem replay_dump (last : Nat) (tr : List Nat) : replay last (dump last tr) = tr := by
  induction tr generalizing last with
  | nil => rfl
  | cons v vs ih =>
    unfold dump
    split
    · next h => subst h; simp [replay, ih]
    · simp [replay, ih]

#print axioms get_set
#print axioms testBit_setSlice_low
#print axioms decR
#print axioms replay_dump
end Misc
