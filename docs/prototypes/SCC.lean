import Proto.Sched
/- Prototype: a stable sweep of a strongly connected group is a fixed point of every block (C11),
   and flip-flop blocks commute (C07). -/
namespace Sched
variable {Var Val : Type}

theorem stable_is_fixed_point (scc : List (Blk Var Val)) (hwf : ∀ b ∈ scc, b.Wf)
    (hsw : SingleWriter scc) (watch : Var → Prop)
    (hwatch : ∀ v, (∃ a ∈ scc, a.W v) → (∃ b ∈ scc, b.R v) → watch v)
    (s : St Var Val) (hst : ∀ v, watch v → runList scc s v = s v) :
    ∀ b ∈ scc, b.run (runList scc s) = runList scc s := by
  intro b hb
  obtain ⟨pre, post, rfl⟩ := List.append_of_mem hb
  have hbwf := hwf b hb
  have hsplit := List.pairwise_append.mp hsw
  have hpre_post : ∀ a ∈ pre, ∀ c ∈ b :: post, ∀ v, a.W v → ¬ c.W v := hsplit.2.2
  have hb_post : ∀ c ∈ post, ∀ v, b.W v → ¬ c.W v := fun c hc => (List.pairwise_cons.mp hsplit.2.1).1 c hc
  have hwfpre : ∀ c ∈ pre, c.Wf := fun c hc => hwf c (by simp [hc])
  have hwfpost : ∀ c ∈ post, c.Wf := fun c hc => hwf c (by simp [hc])
  generalize hs1 : runList pre s = s1
  have hfinal : runList (pre ++ b :: post) s = runList post (b.run s1) := by
    rw [runList_append, runList_cons, hs1]
  rw [hfinal] at hst ⊢
  -- reads of b see their final values already in s1
  have hread : ∀ u, b.R u → s1 u = runList post (b.run s1) u := by
    intro u hu
    have hnb : ¬ b.W u := hbwf.noself u hu
    by_cases hc : ∃ c ∈ post, c.W u
    · obtain ⟨c, hcm, hcu⟩ := hc
      have hw : watch u := hwatch u ⟨c, by simp [hcm], hcu⟩ ⟨b, hb, hu⟩
      have h1 : s1 u = s u := by
        rw [← hs1]
        exact runList_frame pre hwfpre s u
          (fun a ha haw => hpre_post a ha c (List.mem_cons_of_mem _ hcm) u haw hcu)
      rw [h1, hst u hw]
    · have h2 : runList post (b.run s1) u = b.run s1 u :=
        runList_frame post hwfpost _ u (fun c hcm hcu => hc ⟨c, hcm, hcu⟩)
      rw [h2, hbwf.frame s1 u hnb]
  funext v
  by_cases hv : b.W v
  · have h1 : runList post (b.run s1) v = b.run s1 v :=
      runList_frame post hwfpost _ v (fun c hc => hb_post c hc v hv)
    rw [h1]
    exact hbwf.dep _ _ (fun u hu => (hread u hu).symm) v hv
  · exact hbwf.frame _ v hv

/-- two blocks with disjoint write sets that do not read each other's writes commute -/
theorem commute (a b : Blk Var Val) (ha : a.Wf) (hb : b.Wf)
    (hww : ∀ v, a.W v → ¬ b.W v) (hab : ∀ v, a.R v → ¬ b.W v) (hba : ∀ v, b.R v → ¬ a.W v)
    (s : St Var Val) : b.run (a.run s) = a.run (b.run s) := by
  funext v
  by_cases hav : a.W v
  · have hbv : ¬ b.W v := hww v hav
    rw [hb.frame _ v hbv]
    exact ha.dep _ _ (fun u hu => (hb.frame s u (hab u hu)).symm) v hav
  · rw [ha.frame _ v hav]
    by_cases hbv : b.W v
    · exact hb.dep _ _ (fun u hu => ha.frame s u (hba u hu)) v hbv
    · rw [hb.frame _ v hbv, hb.frame _ v hbv, ha.frame _ v hav]

/-- flip-flop style blocks: nobody reads anything that anybody writes (reads are of `cur`, writes of `next`) -/
theorem perm_of_no_read_write (o1 o2 : List (Blk Var Val)) (hperm : o1.Perm o2)
    (hwf : ∀ b ∈ o1, b.Wf) (hsw : ∀ a ∈ o1, ∀ b ∈ o1, a ≠ b → ∀ v, a.W v → ¬ b.W v)
    (hnrw : ∀ a ∈ o1, ∀ b ∈ o1, ∀ v, a.R v → ¬ b.W v) (hnd : o1.Nodup) (s : St Var Val) :
    runList o1 s = runList o2 s := by
  induction hperm generalizing s with
  | nil => rfl
  | cons x _ ih =>
    rw [runList_cons, runList_cons]
    exact ih (fun b hb => hwf b (List.mem_cons_of_mem _ hb))
      (fun a ha b hb => hsw a (List.mem_cons_of_mem _ ha) b (List.mem_cons_of_mem _ hb))
      (fun a ha b hb => hnrw a (List.mem_cons_of_mem _ ha) b (List.mem_cons_of_mem _ hb))
      (List.nodup_cons.mp hnd).2 _
  | swap x y l =>
    rw [runList_cons, runList_cons, runList_cons, runList_cons]
    have hxy : y ≠ x := by
      intro h; subst h
      have := (List.nodup_cons.mp hnd).1
      simp at this
    congr 1
    exact commute y x (hwf y (by simp)) (hwf x (by simp))
      (hsw y (by simp) x (by simp) hxy)
      (hnrw y (by simp) x (by simp)) (hnrw x (by simp) y (by simp)) s
  | trans h1 h2 ih1 ih2 =>
    rw [ih1 hwf hsw hnrw hnd s]
    exact ih2 (fun b hb => hwf b (h1.mem_iff.mpr hb))
      (fun a ha b hb => hsw a (h1.mem_iff.mpr ha) b (h1.mem_iff.mpr hb))
      (fun a ha b hb => hnrw a (h1.mem_iff.mpr ha) b (h1.mem_iff.mpr hb))
      (h1.nodup_iff.mp hnd) s

#print axioms stable_is_fixed_point
#print axioms perm_of_no_read_write
end Sched
