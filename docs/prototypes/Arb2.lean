import Proto.Arb
/- Prototype (continued): priority order, pointer update and fairness of the round-robin arbiter -/
namespace Arb

/-- cyclic distance from the pointer p to k -/
def dist (n p k : Nat) : Nat := (k + n - p) % n

theorem dist_lt (n p k : Nat) (hn : 0 < n) : dist n p k < n := Nat.mod_lt _ hn

/-- an index i in [p, p+n) with i % n = k is p + dist p k -/
theorem idx_eq (n p k i : Nat) (hp : p < n) (hk : k < n) (h1 : p ≤ i) (h2 : i < p + n) (h3 : i % n = k) :
    i = p + dist n p k := by
  unfold dist
  by_cases hi : i < n
  · have : i = k := by rw [← h3, Nat.mod_eq_of_lt hi]
    subst this
    have : (i + n - p) % n = i - p := by
      rw [show i + n - p = (i - p) + n by omega, Nat.add_mod_right, Nat.mod_eq_of_lt (by omega)]
    omega
  · have hik : i - n = k := by
      have : i % n = (i - n) % n := by
        conv => lhs; rw [show i = (i - n) + n by omega, Nat.add_mod_right]
      rw [this, Nat.mod_eq_of_lt (by omega)] at h3; exact h3
    have : (k + n - p) % n = k + n - p := Nat.mod_eq_of_lt (by omega)
    omega

variable {n : Nat} {reqs prio : Nat → Bool}

/-- the granted requester is the first one at or after the pointer in cyclic order -/
theorem grants_first {p : Nat} (hoh : OneHot n prio p) (k : Nat) (hk : k < n)
    (hg : grants n reqs prio k = true) (j : Nat) (hj : j < n) (hr : reqs j = true) :
    dist n p k ≤ dist n p j := by
  have hp := hoh.hp
  have hn : 0 < n := by omega
  -- the First index of k
  unfold grants at hg
  obtain ⟨i, hi, hik, hilt⟩ : ∃ i, First n reqs p i ∧ i % n = k ∧ i < 2 * n := by
    rcases Bool.or_eq_true _ _ |>.mp hg with h | h
    · exact ⟨k, (gI_iff hoh k).mp h, Nat.mod_eq_of_lt hk, by omega⟩
    · exact ⟨n + k, (gI_iff hoh (n+k)).mp h, by simp [Nat.add_mod_left, Nat.mod_eq_of_lt hk], by omega⟩
  -- the index of j in [p, p+n)
  let j' := p + dist n p j
  have hj'mod : j' % n = j := by
    show (p + (j + n - p) % n) % n = j
    rw [Nat.add_mod, Nat.mod_mod, ← Nat.add_mod, show p + (j + n - p) = j + n by omega,
        Nat.add_mod_right, Nat.mod_eq_of_lt hj]
  have hrj' : rI n reqs j' = true := by simp [rI, hj'mod, hr]
  -- i ≤ j' (else j' would contradict firstness of i)
  have hij : i ≤ j' := by
    rcases Nat.lt_or_ge j' i with h | h
    · have := hi.2.2 j' (by omega) h
      rw [hrj'] at this; cases this
    · exact h
  have hlt : i < p + n := by have := dist_lt n p j hn; omega
  have := idx_eq n p k i hp hk hi.1 hlt hik
  omega

theorem mod_sub_of_range {x n : Nat} (h1 : n ≤ x) (h2 : x < 2 * n) : x % n = x - n := by
  rw [Nat.mod_eq_sub_mod h1, Nat.mod_eq_of_lt (by omega)]

theorem pos_mod (p k : Nat) (hp : p < n) (hk : k < n) : (p + dist n p k) % n = k := by
  unfold dist
  rw [Nat.add_mod, Nat.mod_mod, ← Nat.add_mod, show p + (k + n - p) = k + n by omega,
      Nat.add_mod_right, Nat.mod_eq_of_lt hk]

/-- k expressed through its distance from p -/
theorem of_dist (p k : Nat) (hp : p < n) (hk : k < n) :
    (p + dist n p k < n ∧ k = p + dist n p k) ∨ (n ≤ p + dist n p k ∧ k = p + dist n p k - n) := by
  have hn : 0 < n := by omega
  have hd := dist_lt n p k hn
  have hm := pos_mod (n := n) p k hp hk
  by_cases h : p + dist n p k < n
  · left; rw [Nat.mod_eq_of_lt h] at hm; exact ⟨h, hm.symm⟩
  · right; rw [mod_sub_of_range (by omega) (by omega)] at hm; exact ⟨by omega, hm.symm⟩

/-- distance is determined by the two positions -/
theorem dist_eq_of (p k d : Nat) (hp : p < n) (hd : d < n)
    (h : (p + d < n ∧ k = p + d) ∨ (n ≤ p + d ∧ k = p + d - n)) : dist n p k = d := by
  unfold dist
  rcases h with ⟨h1, rfl⟩ | ⟨h1, rfl⟩
  · rw [show p + d + n - p = d + n by omega, Nat.add_mod_right, Nat.mod_eq_of_lt hd]
  · rw [show p + d - n + n - p = d by omega, Nat.mod_eq_of_lt hd]

/-- pointer update: after granting k the pointer moves to (k+1) % n; the distance to a still-waiting
    requester i strictly decreases -/
theorem dist_decreases (p k i : Nat) (hp : p < n) (hk : k < n) (hi : i < n)
    (hki : k ≠ i) (hle : dist n p k ≤ dist n p i) :
    dist n ((k + 1) % n) i < dist n p i := by
  have hn : 0 < n := by omega
  have hdk := dist_lt n p k hn
  have hdi := dist_lt n p i hn
  have hk' := of_dist (n := n) p k hp hk
  have hi' := of_dist (n := n) p i hp hi
  have hlt : dist n p k < dist n p i := by
    rcases Nat.lt_or_ge (dist n p k) (dist n p i) with h | h
    · exact h
    · exfalso
      have he : dist n p k = dist n p i := by omega
      rw [he] at hk'
      rcases hk' with ⟨a, b⟩ | ⟨a, b⟩ <;> rcases hi' with ⟨c, d⟩ | ⟨c, d⟩ <;> omega
  generalize hdk' : dist n p k = dk at *
  generalize hdi' : dist n p i = di at *
  -- the new pointer q and the claim dist q i = di - dk - 1
  suffices h : dist n ((k + 1) % n) i = di - dk - 1 by omega
  have hq : (k + 1) % n < n := Nat.mod_lt _ hn
  apply dist_eq_of _ _ _ hq (by omega)
  rcases hk' with ⟨a, b⟩ | ⟨a, b⟩ <;> rcases hi' with ⟨c, d⟩ | ⟨c, d⟩
  · -- no wrap for k, no wrap for i
    have : (k + 1) % n = k + 1 := Nat.mod_eq_of_lt (by omega)
    rw [this]; left; omega
  · -- k not wrapped, i wrapped
    by_cases hk1 : k + 1 < n
    · rw [Nat.mod_eq_of_lt hk1]; right; omega
    · have : k + 1 = n := by omega
      rw [this, Nat.mod_self]; left; omega
  · omega
  · -- both wrapped
    have : (k + 1) % n = k + 1 := Nat.mod_eq_of_lt (by omega)
    rw [this]; left; omega

#print axioms grants_first
#print axioms dist_decreases
end Arb
