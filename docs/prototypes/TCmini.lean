/- Prototype: width soundness of the RTLIR type rules against PythonBits evaluation (C10),
   on a fragment with explicit (Bits) and implicit (Python int) terms. -/
namespace TCm

inductive E where
  | sig (x w : Nat)            -- a Bits signal of width w
  | num (v : Nat)              -- integer literal
  | add (a b : E)              -- representative max-width operator
  | band (a b : E)
  | inv (a : E)
  | zext (w : Nat) (a : E)

/-- Python values: a Bits object or a plain int (non-negative here) -/
inductive PV where
  | bits (n v : Nat)
  | int (v : Nat)
  deriving DecidableEq

inductive PErr | width | range | type
  deriving DecidableEq

def truthy : PV → Bool
  | .bits _ v => v != 0
  | .int v => v != 0

/-- PythonBits semantics of a max-width binary operator with arithmetic `f` -/
def binop (f : Nat → Nat → Nat) : PV → PV → Except PErr PV
  | .bits n x, .bits m y => if n = m then .ok (.bits n (f x y % 2^n)) else .error .width
  | .bits n x, .int k => if k < 2^n then .ok (.bits n (f x k % 2^n)) else .error .range
  | .int k, .bits n y => if k < 2^n then .ok (.bits n (f k y % 2^n)) else .error .range
  | .int k, .int l => .ok (.int (f k l))

def evalPy (ρ : Nat → Nat) : E → Except PErr PV
  | .sig x w => .ok (.bits w (ρ x))
  | .num v => .ok (.int v)
  | .add a b => do let x ← evalPy ρ a; let y ← evalPy ρ b; binop (· + ·) x y
  | .band a b => do let x ← evalPy ρ a; let y ← evalPy ρ b; binop (· &&& ·) x y
  | .inv a => do
      let x ← evalPy ρ a
      match x with
      | .bits n u => .ok (.bits n (2^n - 1 - u))
      | .int _ => .error .type          -- ~int goes negative: outside this fragment
  | .zext w a => do
      let x ← evalPy ρ a
      match x with
      | .bits n u => if n ≤ w then .ok (.bits w u) else .error .type
      | .int _ => .error .type

/-- minimal width of a literal -/
def nbitsOf (v : Nat) : Nat := if v ≤ 1 then 1 else Nat.log2 v + 1

/-- static type: (width, explicit?)  -/
structure Ty where
  w : Nat
  explicit : Bool
  deriving DecidableEq

inductive TErr | mismatch | trunc | other
  deriving DecidableEq

/-- the max-width rule of visit_BinOp / visit_Compare / visit_IfExp -/
def unify (l r : Ty) : Except TErr Ty :=
  match l.explicit, r.explicit with
  | true, true => if l.w = r.w then .ok l else .error .mismatch
  | true, false => if r.w ≤ l.w then .ok l else .error .trunc
  | false, true => if l.w ≤ r.w then .ok r else .error .trunc
  | false, false => .ok ⟨max l.w r.w, false⟩

/-- no arithmetic between two implicit terms (F12): the fragment on which the rules are sound -/
def check : E → Except TErr Ty
  | .sig _ w => .ok ⟨w, true⟩
  | .num v => .ok ⟨nbitsOf v, false⟩
  | .add a b => do
      let l ← check a; let r ← check b
      if !l.explicit && !r.explicit then .error .other else unify l r
  | .band a b => do
      let l ← check a; let r ← check b
      if !l.explicit && !r.explicit then .error .other else unify l r
  | .inv a => do
      let l ← check a
      if l.explicit then .ok l else .error .other
  | .zext w a => do
      let l ← check a
      if l.explicit && l.w ≤ w then .ok ⟨w, true⟩ else .error .other

/-- the invariant relating static types and run-time values -/
def Agrees (t : Ty) : PV → Prop
  | .bits n _ => t.explicit = true ∧ n = t.w
  | .int v => t.explicit = false ∧ v < 2^t.w

theorem log2_lt (v : Nat) (h : v ≠ 0) : v < 2^(Nat.log2 v + 1) := by
  exact (Nat.log2_lt h).mp (Nat.lt_succ_self _)

theorem nbitsOf_fits (v : Nat) : v < 2^(nbitsOf v) := by
  unfold nbitsOf
  split
  · omega
  · exact log2_lt v (by omega)

theorem binop_sound (f : Nat → Nat → Nat) {l r t : Ty} {x y : PV}
    (hx : Agrees l x) (hy : Agrees r y) (hne : ¬ (l.explicit = false ∧ r.explicit = false))
    (hu : unify l r = .ok t) : ∃ pv, binop f x y = .ok pv ∧ Agrees t pv ∧ t.explicit = true := by
  cases x with
  | bits n u =>
    cases y with
    | bits m s =>
      obtain ⟨hl, rfl⟩ := hx; obtain ⟨hr, rfl⟩ := hy
      simp only [unify, hl, hr] at hu
      split at hu
      · next heq =>
        cases hu
        refine ⟨.bits l.w (f u s % 2^l.w), by simp [binop, heq], ?_, hl⟩
        exact And.intro hl rfl
      · cases hu
    | int k =>
      obtain ⟨hl, rfl⟩ := hx; obtain ⟨hr, hk⟩ := hy
      simp only [unify, hl, hr] at hu
      split at hu
      · next hle =>
        cases hu
        have : k < 2^l.w := Nat.lt_of_lt_of_le hk (Nat.pow_le_pow_right (by omega) hle)
        refine ⟨.bits l.w (f u k % 2^l.w), by simp [binop, this], ?_, hl⟩
        exact And.intro hl rfl
      · cases hu
  | int k =>
    cases y with
    | bits m s =>
      obtain ⟨hl, hk⟩ := hx; obtain ⟨hr, rfl⟩ := hy
      simp only [unify, hl, hr] at hu
      split at hu
      · next hle =>
        cases hu
        have : k < 2^r.w := Nat.lt_of_lt_of_le hk (Nat.pow_le_pow_right (by omega) hle)
        refine ⟨.bits r.w (f k s % 2^r.w), by simp [binop, this], ?_, hr⟩
        exact And.intro hr rfl
      · cases hu
    | int k' =>
      exact absurd ⟨hx.1, hy.1⟩ hne

/-- progress + preservation: an accepted expression evaluates without any error, to a value whose
    kind (Bits vs int) and width are the ones the checker assigned -/
theorem sound (ρ : Nat → Nat) : ∀ (e : E) (t : Ty), check e = .ok t →
    ∃ pv, evalPy ρ e = .ok pv ∧ Agrees t pv := by
  intro e
  induction e with
  | sig x w => intro t h; cases h; exact ⟨_, rfl, rfl, rfl⟩
  | num v => intro t h; cases h; exact ⟨_, rfl, rfl, nbitsOf_fits v⟩
  | add a b iha ihb =>
    intro t h
    simp only [check, bind, Except.bind] at h
    cases ha : check a with
    | error _ => simp [ha] at h
    | ok l =>
      cases hb : check b with
      | error _ => simp [ha, hb] at h
      | ok r =>
        simp only [ha, hb] at h
        obtain ⟨x, hx, hax⟩ := iha l ha
        obtain ⟨y, hy, hay⟩ := ihb r hb
        split at h
        · cases h
        · next hne =>
          have hne' : ¬ (l.explicit = false ∧ r.explicit = false) := by
            intro ⟨h1, h2⟩; simp [h1, h2] at hne
          obtain ⟨pv, hpv, hag, _⟩ := binop_sound (· + ·) hax hay hne' h
          exact ⟨pv, by simp [evalPy, bind, Except.bind, hx, hy, hpv], hag⟩
  | band a b iha ihb =>
    intro t h
    simp only [check, bind, Except.bind] at h
    cases ha : check a with
    | error _ => simp [ha] at h
    | ok l =>
      cases hb : check b with
      | error _ => simp [ha, hb] at h
      | ok r =>
        simp only [ha, hb] at h
        obtain ⟨x, hx, hax⟩ := iha l ha
        obtain ⟨y, hy, hay⟩ := ihb r hb
        split at h
        · cases h
        · next hne =>
          have hne' : ¬ (l.explicit = false ∧ r.explicit = false) := by
            intro ⟨h1, h2⟩; simp [h1, h2] at hne
          obtain ⟨pv, hpv, hag, _⟩ := binop_sound (· &&& ·) hax hay hne' h
          exact ⟨pv, by simp [evalPy, bind, Except.bind, hx, hy, hpv], hag⟩
  | inv a ih =>
    intro t h
    simp only [check, bind, Except.bind] at h
    cases ha : check a with
    | error _ => simp [ha] at h
    | ok l =>
      simp only [ha] at h
      obtain ⟨x, hx, hax⟩ := ih l ha
      split at h
      · next hl =>
        cases h
        cases x with
        | int k => exact absurd hax.1 (by simp [hl])
        | bits n u =>
          obtain ⟨_, rfl⟩ := hax
          refine ⟨.bits t.w (2^t.w - 1 - u), by simp [evalPy, bind, Except.bind, hx], ?_⟩
          exact And.intro hl rfl
      · cases h
  | zext w a ih =>
    intro t h
    simp only [check, bind, Except.bind] at h
    cases ha : check a with
    | error _ => simp [ha] at h
    | ok l =>
      simp only [ha] at h
      obtain ⟨x, hx, hax⟩ := ih l ha
      split at h
      · next hl =>
        cases h
        simp only [Bool.and_eq_true, decide_eq_true_eq] at hl
        cases x with
        | int k => exact absurd hax.1 (by simp [hl.1])
        | bits n u =>
          obtain ⟨_, rfl⟩ := hax
          refine ⟨.bits w u, by simp [evalPy, bind, Except.bind, hx, hl.2], ?_⟩
          exact And.intro rfl rfl
      · cases h

#print axioms sound
end TCm
