/- Prototype: bitstruct pack/unpack bijection without nested inductives -/
namespace BS

inductive Ty where
  | bits (n : Nat)
  | unit
  | pair (fst rest : Ty)        -- struct = right-nested pairs ending in unit; first field most significant
  | arr (len : Nat) (elem : Ty) -- element 0 least significant
  deriving Repr, DecidableEq

inductive Val where
  | bits (n v : Nat)
  | unit
  | pair (fst rest : Val)
  | anil
  | acons (head tail : Val)     -- head = element 0
  deriving Repr, DecidableEq

def Ty.width : Ty → Nat
  | .bits n => n
  | .unit => 0
  | .pair a b => a.width + b.width
  | .arr k t => k * t.width

/-- typing -/
inductive HasTy : Val → Ty → Prop
  | bits (n v) (h : v < 2^n) : HasTy (.bits n v) (.bits n)
  | unit : HasTy .unit .unit
  | pair {a b A B} : HasTy a A → HasTy b B → HasTy (.pair a b) (.pair A B)
  | anil {T} : HasTy .anil (.arr 0 T)
  | acons {x xs k T} : HasTy x T → HasTy xs (.arr k T) → HasTy (.acons x xs) (.arr (k+1) T)

/-- packed value -/
def toBits : Val → Nat × Nat
  | .bits n v => (n, v)
  | .unit => (0, 0)
  | .pair a b => let (wa, va) := toBits a; let (wb, vb) := toBits b; (wa + wb, va * 2^wb + vb)
  | .anil => (0, 0)
  | .acons x xs => let (wx, vx) := toBits x; let (ws, vs) := toBits xs; (ws + wx, vs * 2^wx + vx)

mutual
def fromBits : Ty → Nat → Val
  | .bits n, b => .bits n (b % 2^n)
  | .unit, _ => .unit
  | .pair A B, b => .pair (fromBits A (b / 2^B.width)) (fromBits B (b % 2^B.width))
  | .arr k T, b => fromBitsArr k T b
def fromBitsArr : Nat → Ty → Nat → Val
  | 0, _, _ => .anil
  | k+1, T, b => .acons (fromBits T (b % 2^T.width)) (fromBitsArr k T (b / 2^T.width))
end

theorem toBits_width {v T} (h : HasTy v T) : (toBits v).1 = T.width := by
  induction h with
  | bits n v h => rfl
  | unit => rfl
  | pair ha hb iha ihb => simp [toBits, Ty.width, iha, ihb]
  | anil => simp [toBits, Ty.width]
  | acons hx hxs ihx ihxs =>
    simp [toBits, Ty.width, ihx, ihxs] ; rw [Nat.add_mul]; simp

theorem toBits_lt {v T} (h : HasTy v T) : (toBits v).2 < 2 ^ T.width := by
  induction h with
  | bits n v h => exact h
  | unit => simp [toBits, Ty.width]
  | @pair a b A B ha hb iha ihb =>
    simp only [toBits, Ty.width]
    have wb := toBits_width hb
    rw [wb, Nat.pow_add]
    calc (toBits a).2 * 2 ^ B.width + (toBits b).2
        < (toBits a).2 * 2 ^ B.width + 2 ^ B.width := by omega
      _ = ((toBits a).2 + 1) * 2 ^ B.width := by rw [Nat.add_mul]; simp
      _ ≤ 2 ^ A.width * 2 ^ B.width := Nat.mul_le_mul_right _ iha
  | anil => simp [toBits, Ty.width]
  | @acons x xs k T hx hxs ihx ihxs =>
    simp only [toBits, Ty.width]
    have wx := toBits_width hx
    rw [wx, Nat.add_mul, Nat.one_mul, Nat.pow_add]
    calc (toBits xs).2 * 2 ^ T.width + (toBits x).2
        < (toBits xs).2 * 2 ^ T.width + 2 ^ T.width := by omega
      _ = ((toBits xs).2 + 1) * 2 ^ T.width := by rw [Nat.add_mul]; simp
      _ ≤ 2 ^ (k * T.width) * 2 ^ T.width := Nat.mul_le_mul_right _ ihxs

theorem div_lemma (a b w : Nat) (hb : b < 2^w) : (a * 2^w + b) / 2^w = a := by
  rw [Nat.add_comm, Nat.add_mul_div_right _ _ (Nat.two_pow_pos w), Nat.div_eq_of_lt hb]; simp
theorem mod_lemma (a b w : Nat) (hb : b < 2^w) : (a * 2^w + b) % 2^w = b := by
  rw [Nat.add_comm, Nat.add_mul_mod_self_right, Nat.mod_eq_of_lt hb]

theorem from_to {v T} (h : HasTy v T) : fromBits T (toBits v).2 = v := by
  induction h with
  | bits n v h => simp [toBits, fromBits, Nat.mod_eq_of_lt h]
  | unit => simp [toBits, fromBits]
  | @pair a b A B ha hb iha ihb =>
    simp only [toBits, fromBits]
    have wb := toBits_width hb
    have lb := toBits_lt hb
    rw [wb, div_lemma _ _ _ lb, mod_lemma _ _ _ lb, iha, ihb]
  | anil => simp [toBits, fromBits, fromBitsArr]
  | @acons x xs k T hx hxs ihx ihxs =>
    simp only [toBits, fromBits, fromBitsArr]
    have wx := toBits_width hx
    have lx := toBits_lt hx
    rw [wx, div_lemma _ _ _ lx, mod_lemma _ _ _ lx, ihx]
    simp only [fromBits] at ihxs
    rw [ihxs]

#print axioms from_to
end BS
