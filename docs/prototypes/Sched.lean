/-
Prototype: schedule independence for single-writer, acyclic block graphs.
-/
namespace Sched

variable {Var Val : Type}

abbrev St (Var Val : Type) := Var → Val

structure Blk (Var Val : Type) where
  R   : Var → Prop
  W   : Var → Prop
  run : St Var Val → St Var Val

/-- frame conditions: only W changes, W-part depends only on R, block does not read what it writes -/
structure Blk.Wf (b : Blk Var Val) : Prop where
  frame : ∀ s v, ¬ b.W v → b.run s v = s v
  dep   : ∀ s s', (∀ v, b.R v → s v = s' v) → ∀ v, b.W v → b.run s v = b.run s' v
  noself : ∀ v, b.R v → ¬ b.W v

def runList (bs : List (Blk Var Val)) (s : St Var Val) : St Var Val :=
  bs.foldl (fun s b => b.run s) s

theorem runList_nil (s : St Var Val) : runList [] s = s := rfl
theorem runList_cons (b : Blk Var Val) (bs) (s : St Var Val) :
    runList (b :: bs) s = runList bs (b.run s) := rfl
theorem runList_append (xs ys : List (Blk Var Val)) (s : St Var Val) :
    runList (xs ++ ys) s = runList ys (runList xs s) := by
  simp [runList, List.foldl_append]

/-- a variable not written by any block of the list is unchanged -/
theorem runList_frame (bs : List (Blk Var Val)) (hwf : ∀ b ∈ bs, b.Wf) (s : St Var Val) (v : Var)
    (h : ∀ b ∈ bs, ¬ b.W v) : runList bs s v = s v := by
  induction bs generalizing s with
  | nil => rfl
  | cons b bs ih =>
    rw [runList_cons]
    rw [ih (fun c hc => hwf c (List.mem_cons_of_mem _ hc)) _ (fun c hc => h c (List.mem_cons_of_mem _ hc))]
    exact (hwf b (List.mem_cons_self)).frame s v (h b (List.mem_cons_self))

/-- single writer -/
def SingleWriter (bs : List (Blk Var Val)) : Prop :=
  bs.Pairwise (fun a b => ∀ v, a.W v → ¬ b.W v)

/-- topological: nobody later in the list writes what an earlier-or-same block reads -/
def Topo (bs : List (Blk Var Val)) : Prop :=
  bs.Pairwise (fun a b => ∀ v, a.R v → ¬ b.W v)

theorem fixed_point_of_topo (bs : List (Blk Var Val)) (hwf : ∀ b ∈ bs, b.Wf)
    (hsw : SingleWriter bs) (htopo : Topo bs) (s : St Var Val) :
    ∀ b ∈ bs, b.run (runList bs s) = runList bs s := by
  intro b hb
  obtain ⟨pre, post, rfl⟩ := List.append_of_mem hb
  have hbwf := hwf b hb
  -- facts about post
  have hsw' : ∀ c ∈ post, ∀ v, b.W v → ¬ c.W v := by
    have := (List.pairwise_append.mp hsw).2.1
    exact fun c hc => (List.pairwise_cons.mp this).1 c hc
  have htopo' : ∀ c ∈ post, ∀ v, b.R v → ¬ c.W v := by
    have := (List.pairwise_append.mp htopo).2.1
    exact fun c hc => (List.pairwise_cons.mp this).1 c hc
  have hwfpost : ∀ c ∈ post, c.Wf := fun c hc => hwf c (by simp [hc])
  generalize hs1 : runList pre s = s1
  have hfinal : runList (pre ++ b :: post) s = runList post (b.run s1) := by
    rw [runList_append, runList_cons, hs1]
  rw [hfinal]
  funext v
  by_cases hv : b.W v
  · -- v written by b
    have h1 : runList post (b.run s1) v = b.run s1 v :=
      runList_frame post hwfpost _ v (fun c hc => hsw' c hc v hv)
    rw [h1]
    apply hbwf.dep _ _ _ v hv
    intro u hu
    have h2 : runList post (b.run s1) u = b.run s1 u :=
      runList_frame post hwfpost _ u (fun c hc => htopo' c hc u hu)
    rw [h2]
    exact hbwf.frame s1 u (hbwf.noself u hu)
  · exact hbwf.frame _ v hv

/-- every reader comes after the writer of what it reads (the other reading of "topological"). -/
theorem unique_fixed_point (bs : List (Blk Var Val)) (hwf : ∀ b ∈ bs, b.Wf)
    (htopo : Topo bs) (t t' : St Var Val)
    (hin : ∀ v, (∀ b ∈ bs, ¬ b.W v) → t v = t' v)
    (ht : ∀ b ∈ bs, b.run t = t) (ht' : ∀ b ∈ bs, b.run t' = t') :
    t = t' := by
  suffices h : ∀ (post pre : List (Blk Var Val)), pre ++ post = bs →
      (∀ b ∈ pre, ∀ v, b.W v → t v = t' v) → ∀ b ∈ bs, ∀ v, b.W v → t v = t' v by
    funext v
    by_cases hv : ∃ b ∈ bs, b.W v
    · obtain ⟨b, hb, hbv⟩ := hv
      exact h bs [] (by simp) (by simp) b hb v hbv
    · exact hin v (fun b hb hbv => hv ⟨b, hb, hbv⟩)
  intro post
  induction post with
  | nil => intro pre hpp hpre; simpa [← hpp] using hpre
  | cons c post ih =>
    intro pre hpp hpre
    apply ih (pre ++ [c]) (by simpa using hpp)
    intro b hb v hbv
    rcases List.mem_append.mp hb with hb | hb
    · exact hpre b hb v hbv
    · have hbc : b = c := by simpa using hb
      subst hbc
      have hbmem : b ∈ bs := by rw [← hpp]; simp
      have hbwf := hwf b hbmem
      have e1 : t v = b.run t v := by rw [ht b hbmem]
      have e2 : t' v = b.run t' v := by rw [ht' b hbmem]
      rw [e1, e2]
      apply hbwf.dep _ _ _ v hbv
      intro u hu
      by_cases hw : ∃ d ∈ bs, d.W u
      · obtain ⟨d, hd, hdu⟩ := hw
        rw [← hpp] at hd
        rcases List.mem_append.mp hd with hd | hd
        · exact hpre d hd u hdu
        · rcases List.mem_cons.mp hd with hd | hd
          · subst hd; exact absurd hdu (hbwf.noself u hu)
          · exfalso
            rw [← hpp] at htopo
            have := (List.pairwise_append.mp htopo).2.1
            exact (List.pairwise_cons.mp this).1 d hd u hu hdu
      · exact hin u (fun d hd hdu => hw ⟨d, hd, hdu⟩)

theorem schedule_independent (o1 o2 : List (Blk Var Val)) (hperm : o1.Perm o2)
    (hwf : ∀ b ∈ o1, b.Wf) (hsw : SingleWriter o1)
    (h1 : Topo o1) (h2 : Topo o2) (s : St Var Val) :
    runList o1 s = runList o2 s := by
  have hwf2 : ∀ b ∈ o2, b.Wf := fun b hb => hwf b (hperm.mem_iff.mpr hb)
  have hsw2 : SingleWriter o2 := by
    unfold SingleWriter at *
    exact hperm.pairwise hsw (fun {a b} h v hb ha => h v ha hb)
  apply unique_fixed_point o1 hwf h1
  · intro v hv
    rw [runList_frame o1 hwf s v hv,
        runList_frame o2 hwf2 s v (fun b hb => hv b (hperm.mem_iff.mpr hb))]
  · exact fixed_point_of_topo o1 hwf hsw h1 s
  · intro b hb
    exact fixed_point_of_topo o2 hwf2 hsw2 h2 s b (hperm.mem_iff.mp hb)

#print axioms schedule_independent
end Sched
