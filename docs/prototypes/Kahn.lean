/- Prototype: Kahn's algorithm with an arbitrary tie-break emits every edge in order (C02) -/
namespace Kahn
variable {α : Type} [DecidableEq α]

/-- vertices whose predecessors have all been emitted and which have not been emitted themselves -/
def ready (V : List α) (E : List (α × α)) (done : List α) : List α :=
  V.filter (fun v => decide (v ∉ done) && E.all (fun e => decide (e.2 = v → e.1 ∈ done)))

/-- `pick` is the tie-break oracle (random shuffle, priority queue, …): any function choosing an index -/
def kahn (pick : List α → Nat) (V : List α) (E : List (α × α)) : Nat → List α → List α
  | 0, done => done.reverse
  | fuel+1, done =>
    match h : ready V E done with
    | [] => done.reverse
    | r :: rs =>
      let v := (r :: rs)[pick (r :: rs) % (r :: rs).length]'(Nat.mod_lt _ (by simp))
      kahn pick V E fuel (v :: done)

/-- invariant of the accumulated (reversed) output: no duplicates, and every emitted vertex had all its
    predecessors emitted strictly earlier -/
def Good (E : List (α × α)) : List α → Prop
  | [] => True
  | v :: done => v ∉ done ∧ (∀ e ∈ E, e.2 = v → e.1 ∈ done) ∧ Good E done

theorem mem_ready {V : List α} {E : List (α × α)} {done : List α} {v : α} (h : v ∈ ready V E done) :
    v ∈ V ∧ v ∉ done ∧ ∀ e ∈ E, e.2 = v → e.1 ∈ done := by
  unfold ready at h
  obtain ⟨hv, hp⟩ := List.mem_filter.mp h
  simp only [Bool.and_eq_true, decide_eq_true_eq, List.all_eq_true] at hp
  exact ⟨hv, hp.1, fun e he => hp.2 e he⟩

theorem kahn_good (pick : List α → Nat) (V : List α) (E : List (α × α)) :
    ∀ (fuel : Nat) (done : List α), Good E done → ∃ out, kahn pick V E fuel done = out.reverse ∧ Good E out := by
  intro fuel
  induction fuel with
  | zero => intro done h; exact ⟨done, rfl, h⟩
  | succ fuel ih =>
    intro done h
    unfold kahn
    split
    · exact ⟨done, rfl, h⟩
    · next r rs hr =>
      apply ih
      have hm : (r :: rs)[pick (r :: rs) % (r :: rs).length]'(Nat.mod_lt _ (by simp)) ∈ ready V E done := by
        rw [hr]; exact List.getElem_mem _
      obtain ⟨_, hnd, hp⟩ := mem_ready hm
      exact ⟨hnd, hp, h⟩

/-- in a Good list, the source of every edge into an element occurs *after* it (the list is reversed output) -/
theorem good_order (E : List (α × α)) : ∀ (out : List α), Good E out →
    ∀ e ∈ E, e.2 ∈ out → ∃ pre post, out = pre ++ e.2 :: post ∧ e.1 ∈ post := by
  intro out
  induction out with
  | nil => intro _ e _ h; simp at h
  | cons v out ih =>
    intro hg e he hin
    obtain ⟨hnd, hp, hg'⟩ := hg
    by_cases hv : e.2 = v
    · exact ⟨[], out, by simp [hv], hp e he hv⟩
    · have : e.2 ∈ out := by
        rcases List.mem_cons.mp hin with h | h
        · exact absurd h hv
        · exact h
      obtain ⟨pre, post, hpp, hmem⟩ := ih hg' e he this
      exact ⟨v :: pre, post, by simp [hpp], hmem⟩

theorem good_nodup (E : List (α × α)) : ∀ (out : List α), Good E out → out.Nodup := by
  intro out
  induction out with
  | nil => intro _; exact List.nodup_nil
  | cons v out ih => intro h; exact List.nodup_cons.mpr ⟨h.1, ih h.2.2⟩

/-- headline: whatever the tie-break, the schedule has no duplicates and respects every edge whose
    target was scheduled -/
theorem kahn_sound (pick : List α → Nat) (V : List α) (E : List (α × α)) (fuel : Nat) :
    (kahn pick V E fuel []).Nodup ∧
    ∀ e ∈ E, e.2 ∈ kahn pick V E fuel [] →
      ∃ pre post, kahn pick V E fuel [] = pre ++ e.1 :: post ∧ e.2 ∈ post := by
  obtain ⟨out, hout, hg⟩ := kahn_good pick V E fuel [] trivial
  rw [hout]
  refine ⟨?_, ?_⟩
  · have hn := good_nodup E out hg
    unfold List.Nodup at *
    exact List.pairwise_reverse.mpr (hn.imp (fun h => Ne.symm h))
  · intro e he hin
    have hin' : e.2 ∈ out := List.mem_reverse.mp hin
    obtain ⟨pre, post, hpp, hmem⟩ := good_order E out hg e he hin'
    -- out = pre ++ e.2 :: post with e.1 ∈ post ; reverse: post.reverse ++ e.2 :: pre.reverse
    obtain ⟨p1, p2, hp12⟩ := List.append_of_mem hmem
    refine ⟨p2.reverse, p1.reverse ++ e.2 :: pre.reverse, ?_, by simp⟩
    rw [hpp, hp12]
    simp [List.reverse_append]

#print axioms kahn_sound
end Kahn
