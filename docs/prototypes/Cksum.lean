/- Prototype: the FL and RTL checksum algorithms agree with the specification for every input (C20) -/
namespace Ck

/-- specification: two running sums modulo 2^16 -/
def specStep (s : Nat × Nat) (w : Nat) : Nat × Nat :=
  let s1 := (s.1 + w) % 65536
  (s1, (s.2 + s1) % 65536)
def spec (ws : List Nat) : Nat :=
  let s := ws.foldl specStep (0, 0)
  s.2 * 65536 + s.1

/-- ChecksumFL: 16-bit Bits additions (wrap at 2^16) followed by `& 0xffff` -/
def flStep (s : Nat × Nat) (w : Nat) : Nat × Nat :=
  let s1 := ((s.1 + w) % 2^16) &&& 0xffff
  (s1, ((s.2 + s1) % 2^16) &&& 0xffff)
def fl (ws : List Nat) : Nat :=
  let s := ws.foldl flStep (0, 0)
  s.2 * 2^16 + s.1            -- concat( sum2, sum1 )

/-- ChecksumRTL StepUnit: 32-bit additions, `& 0xffff`; final `(sum2 << 16) | sum1` on 32 bits -/
def rtlStep (s : Nat × Nat) (w : Nat) : Nat × Nat :=
  let s1 := ((w + s.1) % 2^32) &&& 0xffff
  (s1, ((s1 + s.2) % 2^32) &&& 0xffff)
def rtl (ws : List Nat) : Nat :=
  let s := ws.foldl rtlStep (0, 0)
  ((s.2 <<< 16) % 2^32) ||| s.1

theorem and_ffff (x : Nat) : x &&& 0xffff = x % 65536 := by
  have := Nat.and_two_pow_sub_one_eq_mod x 16
  simpa using this

theorem flStep_eq (s : Nat × Nat) (w : Nat) : flStep s w = specStep s w := by
  simp only [flStep, specStep, and_ffff]
  have h : (2:Nat)^16 = 65536 := by decide
  rw [h]; simp [Nat.mod_mod]

theorem rtlStep_eq (s : Nat × Nat) (w : Nat) (hs1 : s.1 < 65536) (hs2 : s.2 < 65536) (hw : w < 65536) :
    rtlStep s w = specStep s w := by
  simp only [rtlStep, specStep, and_ffff]
  have h32 : (2:Nat)^32 = 4294967296 := by decide
  rw [h32]
  have e1 : (w + s.1) % 4294967296 = w + s.1 := Nat.mod_eq_of_lt (by omega)
  rw [e1]
  have e2 : ((w + s.1) % 65536 + s.2) % 4294967296 = (w + s.1) % 65536 + s.2 :=
    Nat.mod_eq_of_lt (by omega)
  rw [e2, Nat.add_comm w s.1, Nat.add_comm ((s.1 + w) % 65536) s.2]

theorem spec_inv (ws : List Nat) (s : Nat × Nat) (h1 : s.1 < 65536) (h2 : s.2 < 65536) :
    (ws.foldl specStep s).1 < 65536 ∧ (ws.foldl specStep s).2 < 65536 := by
  induction ws generalizing s with
  | nil => exact ⟨h1, h2⟩
  | cons w ws ih =>
    simp only [List.foldl_cons]
    apply ih <;> simp only [specStep] <;> omega

theorem fl_fold (ws : List Nat) (s : Nat × Nat) : ws.foldl flStep s = ws.foldl specStep s := by
  induction ws generalizing s with
  | nil => rfl
  | cons w ws ih => simp only [List.foldl_cons, flStep_eq, ih]

theorem rtl_fold (ws : List Nat) (s : Nat × Nat) (h1 : s.1 < 65536) (h2 : s.2 < 65536)
    (hws : ∀ w ∈ ws, w < 65536) : ws.foldl rtlStep s = ws.foldl specStep s := by
  induction ws generalizing s with
  | nil => rfl
  | cons w ws ih =>
    simp only [List.foldl_cons]
    rw [rtlStep_eq s w h1 h2 (hws w (by simp))]
    apply ih
    · simp only [specStep]; omega
    · simp only [specStep]; omega
    · exact fun x hx => hws x (by simp [hx])

theorem fl_eq_spec (ws : List Nat) : fl ws = spec ws := by
  simp only [fl, spec, fl_fold]

theorem rtl_eq_spec (ws : List Nat) (hws : ∀ w ∈ ws, w < 65536) : rtl ws = spec ws := by
  simp only [rtl, spec]
  rw [rtl_fold ws (0,0) (by decide) (by decide) hws]
  obtain ⟨h1, h2⟩ := spec_inv ws (0,0) (by decide) (by decide)
  generalize ws.foldl specStep (0,0) = s at h1 h2
  have h32 : (2:Nat)^32 = 4294967296 := by decide
  rw [Nat.shiftLeft_eq, h32]
  have h16 : (2:Nat)^16 = 65536 := by decide
  rw [h16, Nat.mod_eq_of_lt (by omega)]
  -- disjoint bits: s.2 * 2^16 ||| s.1 = s.2 * 2^16 + s.1
  have := Nat.shiftLeft_add_eq_or_of_lt (i := 16) (b := s.1) (by omega : s.1 < 2^16) s.2
  rw [Nat.shiftLeft_eq, h16] at this
  rw [← this]

#print axioms fl_eq_spec
#print axioms rtl_eq_spec
end Ck
