/- Prototype: little-endian sub-word read/write on a byte store (C18) -/
namespace Mem

abbrev Store := Nat → Nat

def upd (m : Store) (a v : Nat) : Store := fun b => if b = a then v else m b

def readLE (m : Store) : Nat → Nat → Nat
  | _, 0 => 0
  | a, k+1 => m a + 256 * readLE m (a+1) k

def writeLE (m : Store) : Nat → Nat → Nat → Store
  | _, 0, _ => m
  | a, k+1, d => writeLE (upd m a (d % 256)) (a+1) k (d / 256)

theorem write_frame : ∀ (k : Nat) (m : Store) (a d b : Nat), (b < a ∨ a + k ≤ b) → writeLE m a k d b = m b
  | 0, m, a, d, b, _ => rfl
  | k+1, m, a, d, b, h => by
    simp only [writeLE]
    rw [write_frame k _ (a+1) _ b (by omega)]
    simp [upd]; omega

theorem read_congr : ∀ (k : Nat) (m m' : Store) (a : Nat), (∀ b, a ≤ b → b < a + k → m b = m' b) →
    readLE m a k = readLE m' a k
  | 0, _, _, _, _ => rfl
  | k+1, m, m', a, h => by
    simp only [readLE]
    rw [h a (by omega) (by omega), read_congr k m m' (a+1) (fun b h1 h2 => h b (by omega) (by omega))]

theorem read_write : ∀ (k : Nat) (m : Store) (a d : Nat), readLE (writeLE m a k d) a k = d % 256^k
  | 0, m, a, d => by simp [readLE, Nat.mod_one]
  | k+1, m, a, d => by
    simp only [readLE, writeLE]
    rw [write_frame k _ (a+1) _ a (by omega)]
    rw [read_write k _ (a+1) (d / 256)]
    simp only [upd, if_true]
    -- d % 256 + 256 * ((d / 256) % 256^k) = d % 256^(k+1)
    rw [Nat.pow_succ, Nat.mul_comm (256^k) 256, Nat.mod_mul]

/-- bytes written are < 256 (so the store stays a byte store) -/
theorem write_bytes : ∀ (k : Nat) (m : Store) (a d : Nat), (∀ b, m b < 256) → ∀ b, writeLE m a k d b < 256
  | 0, m, _, _, h, b => h b
  | k+1, m, a, d, h, b => by
    simp only [writeLE]
    apply write_bytes k
    intro c; simp only [upd]; split
    · exact Nat.mod_lt _ (by omega)
    · exact h c

#print axioms read_write
#print axioms write_frame
end Mem
