import Proto.Struct
/- Prototype (continued): the other direction of the bitstruct bijection, and equality vs packed value -/
namespace BS

theorem mul_add_div_mod (b w : Nat) : (b / 2^w) * 2^w + b % 2^w = b := by
  rw [Nat.mul_comm]; exact Nat.div_add_mod b (2^w)

mutual
theorem hasTy_fromBits : ∀ (T : Ty) (b : Nat), HasTy (fromBits T b) T
  | .bits n, b => by
      simp only [fromBits]; exact HasTy.bits n _ (Nat.mod_lt _ (Nat.two_pow_pos n))
  | .unit, _ => by simp only [fromBits]; exact HasTy.unit
  | .pair A B, b => by
      simp only [fromBits]; exact HasTy.pair (hasTy_fromBits A _) (hasTy_fromBits B _)
  | .arr k T, b => by simp only [fromBits]; exact hasTy_fromBitsArr k T b
theorem hasTy_fromBitsArr : ∀ (k : Nat) (T : Ty) (b : Nat), HasTy (fromBitsArr k T b) (.arr k T)
  | 0, _, _ => by simp only [fromBitsArr]; exact HasTy.anil
  | k+1, T, b => by
      simp only [fromBitsArr]; exact HasTy.acons (hasTy_fromBits T _) (hasTy_fromBitsArr k T _)
end

mutual
theorem to_from : ∀ (T : Ty) (b : Nat), b < 2^T.width → (toBits (fromBits T b)).2 = b
  | .bits n, b, h => by simp [fromBits, toBits, Nat.mod_eq_of_lt (by simpa [Ty.width] using h)]
  | .unit, b, h => by
      simp only [Ty.width, Nat.pow_zero] at h
      simp [fromBits, toBits]; omega
  | .pair A B, b, h => by
      simp only [fromBits, toBits]
      have hB := hasTy_fromBits B (b % 2^B.width)
      rw [toBits_width hB]
      have hlo : b % 2^B.width < 2^B.width := Nat.mod_lt _ (Nat.two_pow_pos _)
      have hhi : b / 2^B.width < 2^A.width := by
        rw [Nat.div_lt_iff_lt_mul (Nat.two_pow_pos _), ← Nat.pow_add]; simpa [Ty.width] using h
      rw [to_from A _ hhi, to_from B _ hlo]
      exact mul_add_div_mod b B.width
  | .arr k T, b, h => by
      simp only [fromBits]; exact to_fromArr k T b (by simpa [Ty.width] using h)
theorem to_fromArr : ∀ (k : Nat) (T : Ty) (b : Nat), b < 2^(k * T.width) → (toBits (fromBitsArr k T b)).2 = b
  | 0, T, b, h => by
      simp only [Nat.zero_mul, Nat.pow_zero] at h
      simp [fromBitsArr, toBits]; omega
  | k+1, T, b, h => by
      simp only [fromBitsArr, toBits]
      have hx := hasTy_fromBits T (b % 2^T.width)
      rw [toBits_width hx]
      have hlo : b % 2^T.width < 2^T.width := Nat.mod_lt _ (Nat.two_pow_pos _)
      have hhi : b / 2^T.width < 2^(k * T.width) := by
        rw [Nat.div_lt_iff_lt_mul (Nat.two_pow_pos _), ← Nat.pow_add]
        rw [Nat.add_mul, Nat.one_mul] at h; exact h
      rw [to_from T _ hlo, to_fromArr k T _ hhi]
      exact mul_add_div_mod b T.width
end

/-- equality of well-typed values agrees with equality of packed values -/
theorem eq_iff_bits {v w : Val} {T : Ty} (hv : HasTy v T) (hw : HasTy w T) :
    v = w ↔ (toBits v).2 = (toBits w).2 := by
  constructor
  · intro h; rw [h]
  · intro h
    rw [← from_to hv, ← from_to hw, h]

#print axioms to_from
#print axioms eq_iff_bits
end BS
