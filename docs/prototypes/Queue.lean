/- Prototype: ring-buffer queue control (queues.py Normal/Pipe/Bypass CtrlRTL + RegisterFile dpath)
   refines an abstract FIFO, for every capacity n ≥ 1 (pointer arithmetic) and every legal offer. -/
namespace Q

inductive Kind | normal | pipe | bypass
  deriving DecidableEq, Repr

structure Offer (α : Type) where
  enq : Bool
  msg : α
  deq : Bool

structure Out (α : Type) where
  enqRdy : Bool
  deqRdy : Bool
  ret    : Option α     -- value on deq.ret when deq_rdy
  count  : Nat
  deriving DecidableEq

/-! ### implementation model -/
structure QS (α : Type) where
  head  : Nat
  tail  : Nat
  count : Nat
  regs  : Nat → α

def wrapInc (n p : Nat) : Nat := if p < n - 1 then p + 1 else 0

def enqRdy (k : Kind) (n cnt : Nat) (deqEn : Bool) : Bool :=
  match k with
  | .pipe => decide (cnt < n) || deqEn
  | _     => decide (cnt < n)

def deqRdy (k : Kind) (cnt : Nat) (enqEn : Bool) : Bool :=
  match k with
  | .bypass => decide (cnt > 0) || enqEn
  | _       => decide (cnt > 0)

def step {α} (k : Kind) (n : Nat) (s : QS α) (o : Offer α) : QS α × Out α :=
  let er := enqRdy k n s.count o.deq
  let dr := deqRdy k s.count o.enq
  let ex := o.enq && er
  let dx := o.deq && dr
  let ret : α := if k = .bypass ∧ s.count = 0 then o.msg else s.regs s.head
  ( { head  := if dx then wrapInc n s.head else s.head
      tail  := if ex then wrapInc n s.tail else s.tail
      count := if ex && !dx then s.count + 1 else if !ex && dx then s.count - 1 else s.count
      regs  := if ex then (fun i => if i = s.tail then o.msg else s.regs i) else s.regs },
    { enqRdy := er, deqRdy := dr, ret := if dr then some ret else none, count := s.count } )

/-! ### specification -/
def specStep {α} (k : Kind) (n : Nat) (l : List α) (o : Offer α) : List α × Out α :=
  let er := enqRdy k n l.length o.deq
  let dr := deqRdy k l.length o.enq
  let ex := o.enq && er
  let dx := o.deq && dr
  let l1 := if ex then l ++ [o.msg] else l
  let front : α := match l with | x :: _ => x | [] => o.msg
  ( if dx then l1.tail else l1,
    { enqRdy := er, deqRdy := dr, ret := if dr then some front else none, count := l.length } )

/-- protocol-legal offer -/
def Legal {α} (k : Kind) (n cnt : Nat) (o : Offer α) : Prop :=
  (o.enq = true → enqRdy k n cnt o.deq = true) ∧ (o.deq = true → deqRdy k cnt o.enq = true)

/-! ### abstraction and invariant -/
def abs {α} (n : Nat) (s : QS α) : List α :=
  (List.range s.count).map (fun i => s.regs ((s.head + i) % n))

structure Inv {α} (n : Nat) (s : QS α) : Prop where
  hn    : 0 < n
  hhead : s.head < n
  htail : s.tail = (s.head + s.count) % n
  hcnt  : s.count ≤ n

theorem wrapInc_eq (n p : Nat) (hn : 0 < n) (hp : p < n) : wrapInc n p = (p + 1) % n := by
  unfold wrapInc
  split
  · rw [Nat.mod_eq_of_lt (by omega)]
  · have : p + 1 = n := by omega
    rw [this, Nat.mod_self]

theorem mod_inj_of_lt {n a b : Nat} (hab : a ≤ b) (hlt : b - a < n) (h : a % n = b % n) : a = b := by
  have h0 : (b - a) % n = 0 := Nat.sub_mod_eq_zero_of_mod_eq h.symm
  rw [Nat.mod_eq_of_lt hlt] at h0
  omega

@[simp] theorem abs_length {α} (n : Nat) (s : QS α) : (abs n s).length = s.count := by
  simp [abs]

theorem abs_getElem {α} (n : Nat) (s : QS α) (i : Nat) (h : i < (abs n s).length) :
    (abs n s)[i] = s.regs ((s.head + i) % n) := by
  simp [abs]


theorem add_mod_ne {n h i c : Nat} (hic : i < c) (hc : c - i < n) : (h + i) % n ≠ (h + c) % n := by
  intro hh
  have := mod_inj_of_lt (n := n) (a := h + i) (b := h + c) (by omega) (by omega) hh
  omega

/-- enqueue only -/
theorem abs_enq {α} (n : Nat) (s : QS α) (m : α) (hi : Inv n s) (hlt : s.count < n) :
    abs n { head := s.head, tail := wrapInc n s.tail, count := s.count + 1,
            regs := fun i => if i = s.tail then m else s.regs i } = abs n s ++ [m] := by
  apply List.ext_getElem
  · simp
  · intro i h1 h2
    simp only [abs_length] at h1
    rw [abs_getElem]
    simp only
    by_cases hic : i < s.count
    · rw [List.getElem_append_left (by simpa using hic), abs_getElem]
      rw [if_neg]
      rw [hi.htail]
      exact add_mod_ne hic (by omega)
    · have : i = s.count := by omega
      subst this
      rw [List.getElem_append_right (by simp)]
      simp [hi.htail]

/-- dequeue only -/
theorem abs_deq {α} (n : Nat) (s : QS α) (hi : Inv n s) (hpos : 0 < s.count) (t : Nat) (r : Nat → α)
    (hr : ∀ i, 1 ≤ i → i < s.count → r ((s.head + i) % n) = s.regs ((s.head + i) % n)) :
    abs n { head := wrapInc n s.head, tail := t, count := s.count - 1, regs := r } = (abs n s).tail := by
  apply List.ext_getElem
  · simp
  · intro i h1 h2
    simp only [abs_length] at h1
    rw [abs_getElem]
    simp only [List.getElem_tail]
    rw [abs_getElem]
    rw [wrapInc_eq n s.head hi.hn hi.hhead]
    have : ((s.head + 1) % n + i) % n = (s.head + (i + 1)) % n := by
      rw [Nat.add_mod, Nat.mod_mod, ← Nat.add_mod]; congr 1; omega
    rw [this]
    exact hr (i+1) (by omega) (by omega)

/-- simultaneous enqueue and dequeue -/
theorem abs_enq_deq {α} (n : Nat) (s : QS α) (m : α) (hi : Inv n s) :
    abs n { head := wrapInc n s.head, tail := wrapInc n s.tail, count := s.count,
            regs := fun i => if i = s.tail then m else s.regs i } = (abs n s ++ [m]).tail := by
  apply List.ext_getElem
  · simp
  · intro i h1 h2
    simp only [abs_length] at h1
    rw [abs_getElem]
    simp only [List.getElem_tail]
    rw [wrapInc_eq n s.head hi.hn hi.hhead]
    have : ((s.head + 1) % n + i) % n = (s.head + (i + 1)) % n := by
      rw [Nat.add_mod, Nat.mod_mod, ← Nat.add_mod]; congr 1; omega
    rw [this]
    by_cases hic : i + 1 < s.count
    · rw [List.getElem_append_left (by simpa using hic), abs_getElem]
      rw [if_neg]
      rw [hi.htail]
      exact add_mod_ne hic (by have := hi.hcnt; omega)
    · have : i + 1 = s.count := by omega
      rw [List.getElem_append_right (by simp; omega)]
      simp [hi.htail, this]


theorem abs_front {α} (n : Nat) (s : QS α) (hi : Inv n s) (m : α) :
    (match abs n s with | x :: _ => x | [] => m) = if s.count = 0 then m else s.regs s.head := by
  by_cases h0 : s.count = 0
  · have : abs n s = [] := by simp [abs, h0]
    simp [this, h0]
  · obtain ⟨c, hc⟩ : ∃ c, s.count = c + 1 := ⟨s.count - 1, by omega⟩
    simp [abs, hc, List.range_succ_eq_map, Nat.mod_eq_of_lt hi.hhead]

theorem mod_succ_add (n h c : Nat) : ((h + c) % n + 1) % n = (h + (c + 1)) % n := by
  rw [Nat.add_mod, Nat.mod_mod, ← Nat.add_mod]; congr 1

theorem succ_mod_add (n h c : Nat) : ((h + 1) % n + c) % n = (h + (c + 1)) % n := by
  rw [Nat.add_mod, Nat.mod_mod, ← Nat.add_mod]; congr 1; omega

theorem refines {α} (k : Kind) (n : Nat) (s : QS α) (o : Offer α) (hi : Inv n s)
    (hl : Legal k n s.count o) :
    abs n (step k n s o).1 = (specStep k n (abs n s) o).1 ∧
    (step k n s o).2 = (specStep k n (abs n s) o).2 ∧
    Inv n (step k n s o).1 := by
  have hi' := hi
  obtain ⟨hn, hhead, htail, hcnt⟩ := hi
  have htl : s.tail < n := by rw [htail]; exact Nat.mod_lt _ hn
  obtain ⟨hle, hld⟩ := hl
  have hfront := abs_front n s hi' o.msg
  refine ⟨?_, ?_, ?_⟩
  · -- state refinement
    cases he : o.enq <;> cases hd : o.deq
    · simp [step, specStep, he, hd]
    · -- deq only
      have hdr := hld hd
      rw [he] at hdr
      have hpos : 0 < s.count := by
        cases k <;> simp [deqRdy] at hdr <;> omega
      simp only [step, specStep, he, hd, hdr, abs_length, Bool.false_and, Bool.true_and,
        Bool.not_false, Bool.not_true, Bool.and_false, Bool.and_true, if_true, if_false,
        Bool.false_eq_true]
      exact abs_deq n s hi' hpos _ _ (fun _ _ _ => rfl)
    · -- enq only
      have her := hle he
      rw [hd] at her
      have hlt : s.count < n := by
        cases k <;> simp [enqRdy] at her <;> omega
      simp only [step, specStep, he, hd, her, abs_length, Bool.false_and, Bool.true_and,
        Bool.not_false, Bool.not_true, Bool.and_false, Bool.and_true, if_true, if_false,
        Bool.false_eq_true]
      exact abs_enq n s o.msg hi' hlt
    · -- both
      have her := hle he
      have hdr := hld hd
      rw [hd] at her; rw [he] at hdr
      simp only [step, specStep, he, hd, her, hdr, abs_length, Bool.false_and, Bool.true_and,
        Bool.not_false, Bool.not_true, Bool.and_false, Bool.and_true, if_true, if_false,
        Bool.false_eq_true]
      exact abs_enq_deq n s o.msg hi'
  · -- outputs
    simp only [step, specStep, abs_length, hfront]
    congr 1
    by_cases h0 : s.count = 0
    · by_cases hb : k = .bypass
      · simp [h0, hb]
      · have : deqRdy k s.count o.enq = false := by
          cases k <;> simp_all [deqRdy]
        simp [this]
    · simp [h0]
  · -- invariant
    cases he : o.enq <;> cases hd : o.deq
    · simp [step, he, hd]; exact hi'
    · have hdr := hld hd
      rw [he] at hdr
      have hpos : 0 < s.count := by
        cases k <;> simp [deqRdy] at hdr <;> omega
      simp only [step, he, hd, hdr, Bool.false_and, Bool.true_and,
        Bool.not_false, Bool.not_true, Bool.and_false, Bool.and_true, if_true, if_false,
        Bool.false_eq_true]
      refine ⟨hn, ?_, ?_, by simp only; omega⟩
      · rw [wrapInc_eq n _ hn hhead]; exact Nat.mod_lt _ hn
      · simp only
        rw [wrapInc_eq n _ hn hhead, htail, succ_mod_add]
        congr 2; omega
    · have her := hle he
      rw [hd] at her
      have hlt : s.count < n := by
        cases k <;> simp [enqRdy] at her <;> omega
      simp only [step, he, hd, her, Bool.false_and, Bool.true_and,
        Bool.not_false, Bool.not_true, Bool.and_false, Bool.and_true, if_true, if_false,
        Bool.false_eq_true]
      refine ⟨hn, hhead, ?_, by simp only; omega⟩
      simp only
      rw [wrapInc_eq n _ hn htl, htail, mod_succ_add]
    · have her := hle he
      have hdr := hld hd
      rw [hd] at her; rw [he] at hdr
      simp only [step, he, hd, her, hdr, Bool.false_and, Bool.true_and,
        Bool.not_false, Bool.not_true, Bool.and_false, Bool.and_true, if_true, if_false,
        Bool.false_eq_true]
      refine ⟨hn, ?_, ?_, hcnt⟩
      · rw [wrapInc_eq n _ hn hhead]; exact Nat.mod_lt _ hn
      · simp only
        rw [wrapInc_eq n _ hn hhead, wrapInc_eq n _ hn htl, htail, mod_succ_add, succ_mod_add]

#print axioms refines
end Q
