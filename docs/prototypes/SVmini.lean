/- Prototype: semantic preservation of the RTLIR → SystemVerilog expression translation
   for a core fragment, under IEEE-1800 context-width evaluation (C03). -/
namespace SVm

/-- typed RTLIR expressions (after type checking / literal re-sizing) -/
inductive RE where
  | var (x w : Nat)
  | lit (w v : Nat)
  | add (a b : RE) | sub (a b : RE) | inv (a : RE)
  | shl (a b : RE) | shr (a b : RE)
  | eq (a b : RE) | lt (a b : RE)
  | ite (c t f : RE)
  | zext (w : Nat) (a : RE) | trunc (w : Nat) (a : RE) | slice (a : RE) (lo hi : Nat)

def RE.width : RE → Nat
  | .var _ w => w | .lit w _ => w
  | .add a _ => a.width | .sub a _ => a.width | .inv a => a.width
  | .shl a _ => a.width | .shr a _ => a.width
  | .eq _ _ => 1 | .lt _ _ => 1
  | .ite _ t _ => t.width
  | .zext w _ => w | .trunc w _ => w | .slice _ lo hi => hi - lo

/-- what the type checker guarantees -/
inductive WT : RE → Prop
  | var (x w) : 0 < w → WT (.var x w)
  | lit (w v) : 0 < w → v < 2^w → WT (.lit w v)
  | add {a b} : WT a → WT b → a.width = b.width → WT (.add a b)
  | sub {a b} : WT a → WT b → a.width = b.width → WT (.sub a b)
  | inv {a} : WT a → WT (.inv a)
  | shl {a b} : WT a → WT b → WT (.shl a b)
  | shr {a b} : WT a → WT b → WT (.shr a b)
  | eq {a b} : WT a → WT b → a.width = b.width → WT (.eq a b)
  | lt {a b} : WT a → WT b → a.width = b.width → WT (.lt a b)
  | ite {c t f} : WT c → WT t → WT f → t.width = f.width → WT (.ite c t f)
  | zext {w a} : WT a → a.width ≤ w → WT (.zext w a)
  | trunc {w a} : WT a → 0 < w → w ≤ a.width → WT (.trunc w a)
  | slice {a lo hi} : WT a → lo < hi → hi ≤ a.width → WT (.slice a lo hi)

/-- PyMTL / PythonBits value semantics (no exceptions arise on well-typed terms of this fragment) -/
def evalPy (ρ : Nat → Nat) : RE → Nat
  | .var x _ => ρ x
  | .lit _ v => v
  | .add a b => (evalPy ρ a + evalPy ρ b) % 2^a.width
  | .sub a b => (evalPy ρ a + 2^a.width - evalPy ρ b) % 2^a.width
  | .inv a => 2^a.width - 1 - evalPy ρ a
  | .shl a b => if evalPy ρ b ≥ a.width then 0 else (evalPy ρ a * 2^(evalPy ρ b)) % 2^a.width
  | .shr a b => evalPy ρ a / 2^(evalPy ρ b)
  | .eq a b => if evalPy ρ a = evalPy ρ b then 1 else 0
  | .lt a b => if evalPy ρ a < evalPy ρ b then 1 else 0
  | .ite c t f => if evalPy ρ c ≠ 0 then evalPy ρ t else evalPy ρ f
  | .zext _ a => evalPy ρ a
  | .trunc w a => evalPy ρ a % 2^w
  | .slice a lo hi => (evalPy ρ a / 2^lo) % 2^(hi - lo)

/-- emitted SystemVerilog expressions -/
inductive SV where
  | var (x w : Nat)
  | lit (w v : Nat)
  | add (a b : SV) | sub (a b : SV) | inv (a : SV)
  | shl (a b : SV) | shr (a b : SV)
  | eq (a b : SV) | lt (a b : SV)
  | cond (c t f : SV)
  | concat (a b : SV)
  | cast (w : Nat) (a : SV)
  | partsel (a : SV) (hi lo : Nat)

def selfW : SV → Nat
  | .var _ w => w | .lit w _ => w
  | .add a b => max (selfW a) (selfW b) | .sub a b => max (selfW a) (selfW b) | .inv a => selfW a
  | .shl a _ => selfW a | .shr a _ => selfW a
  | .eq _ _ => 1 | .lt _ _ => 1
  | .cond _ t f => max (selfW t) (selfW f)
  | .concat a b => selfW a + selfW b
  | .cast w _ => w
  | .partsel _ hi lo => hi + 1 - lo

/-- evaluation in a context of width `W` (IEEE 1800-2017 §11.6: context-determined operands are
    extended to `W` before the operation; shift amounts, relational operands, concatenation members,
    part-select bases are self-determined). `castB` selects the reading of the size cast. -/
def ev (castB : Bool) (ρ : Nat → Nat) : Nat → SV → Nat
  | _, .var x _ => ρ x
  | _, .lit _ v => v
  | W, .add a b => (ev castB ρ W a + ev castB ρ W b) % 2^W
  | W, .sub a b => (ev castB ρ W a + 2^W - ev castB ρ W b) % 2^W
  | W, .inv a => 2^W - 1 - ev castB ρ W a
  | W, .shl a b => (ev castB ρ W a * 2^(ev castB ρ (selfW b) b)) % 2^W
  | W, .shr a b => ev castB ρ W a / 2^(ev castB ρ (selfW b) b)
  | _, .eq a b => let m := max (selfW a) (selfW b)
                  if ev castB ρ m a = ev castB ρ m b then 1 else 0
  | _, .lt a b => let m := max (selfW a) (selfW b)
                  if ev castB ρ m a < ev castB ρ m b then 1 else 0
  | W, .cond c t f => if ev castB ρ (selfW c) c ≠ 0 then ev castB ρ W t else ev castB ρ W f
  | _, .concat a b => ev castB ρ (selfW a) a * 2^(selfW b) + ev castB ρ (selfW b) b
  | _, .cast w a => (ev castB ρ (if castB then max w (selfW a) else selfW a) a) % 2^w
  | _, .partsel a hi lo => (ev castB ρ (selfW a) a / 2^lo) % 2^(hi + 1 - lo)

/-- the translator (VBehavioralTranslatorL1/L2 visit_* on this fragment) -/
def tr : RE → SV
  | .var x w => .var x w
  | .lit w v => .lit w v
  | .add a b => .add (tr a) (tr b) | .sub a b => .sub (tr a) (tr b) | .inv a => .inv (tr a)
  | .shl a b => .shl (tr a) (tr b) | .shr a b => .shr (tr a) (tr b)
  | .eq a b => .eq (tr a) (tr b) | .lt a b => .lt (tr a) (tr b)
  | .ite c t f => .cond (tr c) (tr t) (tr f)
  | .zext w a => if w = a.width then tr a else .concat (.lit (w - a.width) 0) (tr a)
  | .trunc w a => if w < a.width then .cast w (tr a) else tr a
  | .slice a lo hi => .partsel (tr a) (hi - 1) lo

theorem selfW_tr {e : RE} (h : WT e) : selfW (tr e) = e.width := by
  induction h with
  | var => rfl
  | lit => rfl
  | add _ _ hw iha ihb => simp [tr, selfW, RE.width, iha, ihb, hw]
  | sub _ _ hw iha ihb => simp [tr, selfW, RE.width, iha, ihb, hw]
  | inv _ ih => simp [tr, selfW, RE.width, ih]
  | shl _ _ iha _ => simp [tr, selfW, RE.width, iha]
  | shr _ _ iha _ => simp [tr, selfW, RE.width, iha]
  | eq => rfl
  | lt => rfl
  | ite _ _ _ hw _ iht ihf => simp [tr, selfW, RE.width, iht, ihf, hw]
  | @zext w a _ hle ih =>
    simp only [tr, RE.width]
    split
    · next h => rw [ih, h]
    · simp [selfW, ih]; omega
  | @trunc w a _ _ hle ih =>
    simp only [tr, RE.width]
    split
    · rfl
    · rw [ih]; omega
  | @slice a lo hi _ hlt _ _ => simp [tr, selfW, RE.width]; omega

/-- environments give each variable a value that fits its declared width -/
def Fits (ρ : Nat → Nat) : RE → Prop
  | .var x w => ρ x < 2^w
  | .lit _ _ => True
  | .add a b => Fits ρ a ∧ Fits ρ b | .sub a b => Fits ρ a ∧ Fits ρ b | .inv a => Fits ρ a
  | .shl a b => Fits ρ a ∧ Fits ρ b | .shr a b => Fits ρ a ∧ Fits ρ b
  | .eq a b => Fits ρ a ∧ Fits ρ b | .lt a b => Fits ρ a ∧ Fits ρ b
  | .ite c t f => Fits ρ c ∧ Fits ρ t ∧ Fits ρ f
  | .zext _ a => Fits ρ a | .trunc _ a => Fits ρ a | .slice a _ _ => Fits ρ a

theorem evalPy_lt (ρ : Nat → Nat) {e : RE} (h : WT e) (hf : Fits ρ e) : evalPy ρ e < 2^e.width := by
  induction h with
  | var => exact hf
  | lit _ _ _ hv => exact hv
  | add => exact Nat.mod_lt _ (Nat.two_pow_pos _)
  | sub => exact Nat.mod_lt _ (Nat.two_pow_pos _)
  | @inv a _ ih =>
    have := Nat.two_pow_pos a.width
    simp only [evalPy, RE.width]; omega
  | @shl a b _ _ iha _ =>
    simp only [evalPy, RE.width]
    split
    · exact Nat.two_pow_pos _
    · exact Nat.mod_lt _ (Nat.two_pow_pos _)
  | @shr a b _ _ iha _ =>
    simp only [evalPy, RE.width]
    exact Nat.lt_of_le_of_lt (Nat.div_le_self _ _) (iha hf.1)
  | eq => simp only [evalPy, RE.width]; split <;> omega
  | lt => simp only [evalPy, RE.width]; split <;> omega
  | @ite c t f _ _ _ hw _ iht ihf =>
    simp only [evalPy, RE.width]
    split
    · exact iht hf.2.1
    · rw [hw]; exact ihf hf.2.2
  | @zext w a _ hle ih =>
    simp only [evalPy, RE.width]
    exact Nat.lt_of_lt_of_le (ih hf) (Nat.pow_le_pow_right (by omega) hle)
  | trunc => exact Nat.mod_lt _ (Nat.two_pow_pos _)
  | slice => exact Nat.mod_lt _ (Nat.two_pow_pos _)

theorem shl_big (a b w : Nat) (h : b ≥ w) : (a * 2^b) % 2^w = 0 := by
  obtain ⟨k, rfl⟩ : ∃ k, b = w + k := ⟨b - w, by omega⟩
  have : a * 2^(w+k) = 2^w * (a * 2^k) := by
    rw [Nat.pow_add, Nat.mul_left_comm]
  rw [this]
  exact Nat.mul_mod_right _ _

theorem tr_correct (castB : Bool) (ρ : Nat → Nat) {e : RE} (h : WT e) (hf : Fits ρ e) :
    ev castB ρ e.width (tr e) = evalPy ρ e := by
  induction h with
  | var => rfl
  | lit => rfl
  | @add a b ha hb hw iha ihb =>
    simp only [tr, ev, evalPy, RE.width]
    rw [iha hf.1]; rw [hw] at *; rw [ihb hf.2]
  | @sub a b ha hb hw iha ihb =>
    simp only [tr, ev, evalPy, RE.width]
    rw [iha hf.1]; rw [hw] at *; rw [ihb hf.2]
  | @inv a ha ih =>
    simp only [tr, ev, evalPy, RE.width]; rw [ih hf]
  | @shl a b ha hb iha ihb =>
    simp only [tr, ev, evalPy, RE.width]
    rw [iha hf.1, selfW_tr hb, ihb hf.2]
    split
    · next hge => exact shl_big _ _ _ hge
    · rfl
  | @shr a b ha hb iha ihb =>
    simp only [tr, ev, evalPy, RE.width]
    rw [iha hf.1, selfW_tr hb, ihb hf.2]
  | @eq a b ha hb hw iha ihb =>
    simp only [tr, ev, evalPy, RE.width]
    rw [selfW_tr ha, selfW_tr hb, hw, Nat.max_self]
    rw [hw] at iha
    rw [iha hf.1, ihb hf.2]
  | @lt a b ha hb hw iha ihb =>
    simp only [tr, ev, evalPy, RE.width]
    rw [selfW_tr ha, selfW_tr hb, hw, Nat.max_self]
    rw [hw] at iha
    rw [iha hf.1, ihb hf.2]
  | @ite c t f hc ht hfw hw ihc iht ihf =>
    simp only [tr, ev, evalPy, RE.width]
    rw [selfW_tr hc, ihc hf.1, iht hf.2.1]
    rw [hw] at *
    rw [ihf hf.2.2]
  | @zext w a ha hle ih =>
    simp only [tr, evalPy, RE.width]
    split
    · next heq => rw [heq]; exact ih hf
    · simp only [ev, selfW]
      rw [selfW_tr ha, ih hf]; simp
  | @trunc w a ha hpos hle ih =>
    simp only [tr, evalPy, RE.width]
    split
    · next hlt =>
      simp only [ev]
      rw [selfW_tr ha]
      have : (if castB = true then max w a.width else a.width) = a.width := by
        split
        · omega
        · rfl
      rw [this, ih hf]
    · next hnlt =>
      have heq : w = a.width := by omega
      rw [heq, ih hf, Nat.mod_eq_of_lt (evalPy_lt ρ ha hf)]
  | @slice a lo hi ha hlt hle ih =>
    simp only [tr, ev, evalPy, RE.width]
    rw [selfW_tr ha, ih hf]
    congr 2; omega

#print axioms tr_correct
end SVm
