/- Prototype: connected component by frontier expansion to a fixed point (C08) -/
namespace Nets
variable {α : Type} [DecidableEq α]

def adj (E : List (α × α)) (a : α) : List α :=
  E.filterMap (fun e => if e.1 = a then some e.2 else if e.2 = a then some e.1 else none)

def Step (E : List (α × α)) (a b : α) : Prop := (a, b) ∈ E ∨ (b, a) ∈ E

theorem mem_adj (E : List (α × α)) (a b : α) : b ∈ adj E a ↔ Step E a b := by
  unfold adj Step
  simp only [List.mem_filterMap]
  constructor
  · rintro ⟨⟨x, y⟩, he, h⟩
    simp only at h
    split at h
    · next h1 => subst h1; simp at h; subst h; exact Or.inl he
    · split at h
      · next _ h2 => subst h2; simp at h; subst h; exact Or.inr he
      · cases h
  · rintro (h | h)
    · exact ⟨(a, b), h, by simp⟩
    · refine ⟨(b, a), h, ?_⟩
      simp only
      split
      · next h1 => subst h1; rfl
      · simp

def expand (E : List (α × α)) (S : List α) : List α :=
  S ++ (S.flatMap (adj E)).filter (fun b => decide (b ∉ S))

def closed (E : List (α × α)) (S : List α) : Bool :=
  (S.flatMap (adj E)).all (fun b => decide (b ∈ S))

theorem closed_iff (E : List (α × α)) (S : List α) :
    closed E S = true ↔ ∀ a ∈ S, ∀ b, Step E a b → b ∈ S := by
  unfold closed
  simp only [List.all_eq_true, List.mem_flatMap, decide_eq_true_eq]
  constructor
  · intro h a ha b hs
    exact h b ⟨a, ha, (mem_adj E a b).mpr hs⟩
  · rintro h b ⟨a, ha, hb⟩
    exact h a ha b ((mem_adj E a b).mp hb)

def closure (E : List (α × α)) : Nat → List α → Option (List α)
  | 0, S => if closed E S then some S else none
  | f+1, S => if closed E S then some S else closure E f (expand E S)

inductive Reach (E : List (α × α)) : α → α → Prop
  | refl (a : α) : Reach E a a
  | step {a b c : α} : Reach E a b → Step E b c → Reach E a c

theorem expand_sound (E : List (α × α)) (S : List α) :
    ∀ b ∈ expand E S, ∃ a ∈ S, Reach E a b := by
  intro b hb
  unfold expand at hb
  rcases List.mem_append.mp hb with h | h
  · exact ⟨b, h, Reach.refl b⟩
  · have := (List.mem_filter.mp h).1
    obtain ⟨a, ha, hab⟩ := List.mem_flatMap.mp this
    exact ⟨a, ha, Reach.step (Reach.refl a) ((mem_adj E a b).mp hab)⟩

theorem reach_trans {E : List (α × α)} {a b c : α} (h1 : Reach E a b) (h2 : Reach E b c) : Reach E a c := by
  induction h2 with
  | refl => exact h1
  | step _ hs ih => exact Reach.step ih hs

theorem closure_sound (E : List (α × α)) : ∀ (f : Nat) (S T : List α), closure E f S = some T →
    ∀ b ∈ T, ∃ a ∈ S, Reach E a b := by
  intro f
  induction f with
  | zero =>
    intro S T h b hb
    simp only [closure] at h
    split at h
    · cases h; exact ⟨b, hb, Reach.refl b⟩
    · cases h
  | succ f ih =>
    intro S T h b hb
    simp only [closure] at h
    split at h
    · cases h; exact ⟨b, hb, Reach.refl b⟩
    · obtain ⟨m, hm, hmb⟩ := ih _ _ h b hb
      obtain ⟨a, ha, ham⟩ := expand_sound E S m hm
      exact ⟨a, ha, reach_trans ham hmb⟩

theorem closure_closed (E : List (α × α)) : ∀ (f : Nat) (S T : List α), closure E f S = some T →
    closed E T = true ∧ ∀ a ∈ S, a ∈ T := by
  intro f
  induction f with
  | zero =>
    intro S T h
    simp only [closure] at h
    split at h
    · next hc => cases h; exact ⟨hc, fun a ha => ha⟩
    · cases h
  | succ f ih =>
    intro S T h
    simp only [closure] at h
    split at h
    · next hc => cases h; exact ⟨hc, fun a ha => ha⟩
    · obtain ⟨hc, hsub⟩ := ih _ _ h
      exact ⟨hc, fun a ha => hsub a (by unfold expand; exact List.mem_append_left _ ha)⟩

theorem closure_complete (E : List (α × α)) (f : Nat) (S T : List α) (h : closure E f S = some T) :
    ∀ a ∈ S, ∀ b, Reach E a b → b ∈ T := by
  obtain ⟨hc, hsub⟩ := closure_closed E f S T h
  have hcl := (closed_iff E T).mp hc
  intro a ha b hr
  induction hr with
  | refl => exact hsub a ha
  | step _ hs ih => exact hcl _ ih _ hs

/-- reachability depends only on the edge *set*, and not on the orientation of edges -/
theorem reach_of_edges_subset {E E' : List (α × α)} (h : ∀ a b, Step E a b → Step E' a b) {a b : α}
    (hr : Reach E a b) : Reach E' a b := by
  induction hr with
  | refl => exact Reach.refl _
  | step _ hs ih => exact Reach.step ih (h _ _ hs)

theorem reach_perm {E E' : List (α × α)} (hp : E.Perm E') (a b : α) : Reach E a b ↔ Reach E' a b :=
  ⟨reach_of_edges_subset (fun _ _ h => h.imp (hp.mem_iff.mp) (hp.mem_iff.mp)),
   reach_of_edges_subset (fun _ _ h => h.imp (hp.mem_iff.mpr) (hp.mem_iff.mpr))⟩

theorem reach_flip (E : List (α × α)) (a b : α) :
    Reach E a b ↔ Reach (E.map (fun e => (e.2, e.1))) a b := by
  have key : ∀ E : List (α × α), ∀ x y, Step E x y → Step (E.map (fun e => (e.2, e.1))) x y := by
    intro E x y h
    unfold Step at *
    simp only [List.mem_map, Prod.mk.injEq]
    rcases h with h | h
    · exact Or.inr ⟨(x, y), h, rfl, rfl⟩
    · exact Or.inl ⟨(y, x), h, rfl, rfl⟩
  constructor
  · exact reach_of_edges_subset (key E)
  · intro h
    have := reach_of_edges_subset (key (E.map (fun e => (e.2, e.1)))) h
    simpa [List.map_map, Function.comp_def] using this

#print axioms closure_sound
#print axioms closure_complete
#print axioms reach_perm
#print axioms reach_flip
end Nets
