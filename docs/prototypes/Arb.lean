/- Prototype: round-robin arbiter kill chain (arbiters.py), arbitrary nreqs -/
namespace Arb

section
variable (n : Nat) (reqs prio : Nat → Bool)

def rI (i : Nat) : Bool := reqs (i % n)
def pI (i : Nat) : Bool := decide (i < n) && prio i

def kills : Nat → Bool
  | 0 => true
  | i+1 => if pI n prio i then rI n reqs i else (kills i || rI n reqs i)

def gI (i : Nat) : Bool :=
  if pI n prio i then rI n reqs i else (!kills n reqs prio i && rI n reqs i)

def grants (k : Nat) : Bool := gI n reqs prio k || gI n reqs prio (n + k)

/-- the priority register is one-hot at position p -/
structure OneHot (p : Nat) : Prop where
  hp : p < n
  h  : ∀ i, i < n → (prio i = true ↔ i = p)

variable {n reqs prio}

theorem pI_eq {p : Nat} (hoh : OneHot n prio p) (i : Nat) : pI n prio i = decide (i = p) := by
  unfold pI
  by_cases hi : i < n
  · have := hoh.h i hi
    by_cases hip : i = p
    · subst hip
      simp [hi, this.mpr rfl]
    · have : prio i = false := by
        cases hpi : prio i with
        | false => rfl
        | true => exact absurd (this.mp hpi) hip
      simp [hi, hip, this]
  · have : i ≠ p := by have := hoh.hp; omega
    simp [hi, this]

theorem kills_le {p : Nat} (hoh : OneHot n prio p) : ∀ i, i ≤ p → kills n reqs prio i = true := by
  intro i
  induction i with
  | zero => intro _; rfl
  | succ i ih =>
    intro h
    have hne : i ≠ p := by omega
    simp [kills, pI_eq hoh, hne, ih (by omega)]

theorem kills_gt {p : Nat} (hoh : OneHot n prio p) :
    ∀ d, (kills n reqs prio (p + 1 + d) = true ↔ ∃ j, j ≤ d ∧ rI n reqs (p + j) = true) := by
  intro d
  induction d with
  | zero =>
    simp [kills, pI_eq hoh]
  | succ d ih =>
    have hne : p + 1 + d ≠ p := by omega
    have : p + 1 + (d + 1) = (p + 1 + d) + 1 := by omega
    rw [this, kills]
    simp only [pI_eq hoh, hne, decide_false, Bool.false_eq_true, if_false, Bool.or_eq_true, ih]
    constructor
    · rintro (⟨j, hj, hr⟩ | hr)
      · exact ⟨j, by omega, hr⟩
      · exact ⟨d + 1, by omega, by rw [show p + (d+1) = p + 1 + d by omega]; exact hr⟩
    · rintro ⟨j, hj, hr⟩
      by_cases hjd : j ≤ d
      · exact Or.inl ⟨j, hjd, hr⟩
      · have : j = d + 1 := by omega
        subst this
        right; rw [show p + 1 + d = p + (d+1) by omega]; exact hr

/-- `First i`: i is the first requesting index at or after the pointer in the doubled vector -/
def First (n : Nat) (reqs : Nat → Bool) (p i : Nat) : Prop :=
  p ≤ i ∧ rI n reqs i = true ∧ ∀ j, p ≤ j → j < i → rI n reqs j = false

theorem gI_iff {p : Nat} (hoh : OneHot n prio p) (i : Nat) :
    gI n reqs prio i = true ↔ First n reqs p i := by
  unfold gI First
  rcases Nat.lt_trichotomy i p with hlt | heq | hgt
  · have hne : i ≠ p := by omega
    simp [pI_eq hoh, hne, kills_le (reqs := reqs) hoh i (by omega)]
    intro h; omega
  · subst heq
    simp [pI_eq hoh]
    intro _ j h1 h2; omega
  · obtain ⟨d, rfl⟩ : ∃ d, i = p + 1 + d := ⟨i - p - 1, by omega⟩
    have hne : p + 1 + d ≠ p := by omega
    simp only [pI_eq hoh, hne, decide_false, Bool.false_eq_true, if_false, Bool.and_eq_true,
      Bool.not_eq_true']
    constructor
    · rintro ⟨hk, hr⟩
      refine ⟨by omega, hr, ?_⟩
      intro j hj1 hj2
      cases hrj : rI n reqs j with
      | false => rfl
      | true =>
        have : kills n reqs prio (p + 1 + d) = true :=
          (kills_gt hoh d).mpr ⟨j - p, by omega, by rw [show p + (j - p) = j by omega]; exact hrj⟩
        rw [this] at hk; cases hk
    · rintro ⟨_, hr, hall⟩
      refine ⟨?_, hr⟩
      cases hk : kills n reqs prio (p + 1 + d) with
      | false => rfl
      | true =>
        obtain ⟨j, hj, hrj⟩ := (kills_gt hoh d).mp hk
        rw [hall (p + j) (by omega) (by omega)] at hrj; cases hrj

theorem First_unique {p i i' : Nat} (h : First n reqs p i) (h' : First n reqs p i') : i = i' := by
  rcases Nat.lt_trichotomy i i' with hlt | heq | hgt
  · have := h'.2.2 i h.1 hlt; rw [h.2.1] at this; cases this
  · exact heq
  · have := h.2.2 i' h'.1 hgt; rw [h'.2.1] at this; cases this

theorem grants_subset {p : Nat} (hoh : OneHot n prio p) (k : Nat) (hk : k < n)
    (hg : grants n reqs prio k = true) : reqs k = true := by
  unfold grants at hg
  rcases Bool.or_eq_true _ _ |>.mp hg with h | h
  · have := ((gI_iff hoh k).mp h).2.1
    simpa [rI, Nat.mod_eq_of_lt hk] using this
  · have := ((gI_iff hoh (n + k)).mp h).2.1
    simpa [rI, Nat.add_mod_left, Nat.mod_eq_of_lt hk] using this

theorem grants_onehot {p : Nat} (hoh : OneHot n prio p) (k k' : Nat) (hk : k < n) (hk' : k' < n)
    (hg : grants n reqs prio k = true) (hg' : grants n reqs prio k' = true) : k = k' := by
  unfold grants at hg hg'
  have key : ∀ k, k < n → (gI n reqs prio k || gI n reqs prio (n + k)) = true →
      ∃ i, First n reqs p i ∧ i % n = k := by
    intro k hk h
    rcases Bool.or_eq_true _ _ |>.mp h with h | h
    · exact ⟨k, (gI_iff hoh k).mp h, Nat.mod_eq_of_lt hk⟩
    · exact ⟨n + k, (gI_iff hoh (n+k)).mp h, by simp [Nat.add_mod_left, Nat.mod_eq_of_lt hk]⟩
  obtain ⟨i, hi, rfl⟩ := key k hk hg
  obtain ⟨i', hi', rfl⟩ := key k' hk' hg'
  rw [First_unique hi hi']

/-- existence of a first requester, by strong induction on the distance bound -/
theorem exists_first (p : Nat) : ∀ b, (∃ i, p ≤ i ∧ i ≤ p + b ∧ rI n reqs i = true) →
    ∃ i, First n reqs p i ∧ i ≤ p + b := by
  intro b
  induction b with
  | zero =>
    rintro ⟨i, h1, h2, h3⟩
    have : i = p := by omega
    subst this
    exact ⟨i, ⟨Nat.le_refl _, h3, fun j a c => by omega⟩, by omega⟩
  | succ b ih =>
    rintro ⟨i, h1, h2, h3⟩
    by_cases hex : ∃ i, p ≤ i ∧ i ≤ p + b ∧ rI n reqs i = true
    · obtain ⟨f, hf, hfb⟩ := ih hex
      exact ⟨f, hf, by omega⟩
    · have hi : i = p + (b + 1) := by
        rcases Nat.lt_or_ge i (p + (b+1)) with h | h
        · exact absurd ⟨i, h1, by omega, h3⟩ hex
        · omega
      refine ⟨i, ⟨h1, h3, ?_⟩, h2⟩
      intro j hj1 hj2
      cases hr : rI n reqs j with
      | false => rfl
      | true => exact absurd ⟨j, hj1, by omega, hr⟩ hex

theorem grants_nonzero {p : Nat} (hoh : OneHot n prio p) (k : Nat) (hk : k < n)
    (hr : reqs k = true) : ∃ k', k' < n ∧ grants n reqs prio k' = true := by
  have hp := hoh.hp
  -- an index in [p, p+n) that requests
  have hex : ∃ i, p ≤ i ∧ i ≤ p + (n - 1) ∧ rI n reqs i = true := by
    by_cases hkp : p ≤ k
    · exact ⟨k, hkp, by omega, by simp [rI, Nat.mod_eq_of_lt hk, hr]⟩
    · exact ⟨n + k, by omega, by omega, by simp [rI, Nat.add_mod_left, Nat.mod_eq_of_lt hk, hr]⟩
  obtain ⟨f, hf, hfb⟩ := exists_first p (n - 1) hex
  have hf2 : f < 2 * n := by omega
  by_cases hfn : f < n
  · refine ⟨f, hfn, ?_⟩
    simp [grants, (gI_iff hoh f).mpr hf]
  · refine ⟨f - n, by omega, ?_⟩
    have : n + (f - n) = f := by omega
    simp [grants, this, (gI_iff hoh f).mpr hf]

end
end Arb
