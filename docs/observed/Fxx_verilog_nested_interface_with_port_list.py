from pymtl3 import *
class Lane( Interface ):
  def construct( s ):
    s.data = [ InPort( Bits4 ) for _ in range(3) ]
    s.en = InPort( Bits1 )
    s.ack = OutPort( Bits2 )
    s.a0 = InPort( Bits3 )
class Ch( Interface ):
  def construct( s ):
    s.lane = Lane()
    s.val = InPort( Bits1 )
    s.rdy = OutPort( Bits1 )
class Sub( Component ):
  def construct( s ):
    s.ch = Ch()
    s.o = OutPort( Bits4 )
    @update
    def up():
      s.o @= s.ch.lane.data[0] ^ s.ch.lane.data[2] if s.ch.lane.en else s.ch.lane.data[1]
      s.ch.lane.ack @= zext( s.ch.val, 2 ) + trunc( s.ch.lane.a0, 2 )
      s.ch.rdy @= ~s.ch.val
class Top( Component ):
  def construct( s ):
    s.ch = Ch()
    s.o = OutPort( Bits4 )
    s.sub = Sub()
    s.sub.ch //= s.ch
    s.o //= s.sub.o
