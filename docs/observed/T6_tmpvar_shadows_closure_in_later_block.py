from pymtl3 import *
class Top( Component ):
  def construct( s ):
    s.a = InPort( Bits8 )
    s.o = OutPort( Bits8 )
    s.p = OutPort( Bits8 )
    u = 7
    @update
    def up1():
      u = s.a ^ 3
      s.o @= u
    @update
    def up2():
      s.p @= s.a + u
